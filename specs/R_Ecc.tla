---- MODULE R_Ecc ----
(* Requirement (C15): outcome of the ECC port for one port word, written from the property statement -- NOT a
   re-derivation of the Hamming code.  A port word consists of `lanes` ECC words (one per burst cycle); each ECC word
   stores k data bits in CodeBits(k) stored bits (SECDED: the smallest m with 2^m >= m+k+1 check bits, plus one
   overall parity bit).  Between the write and the read a set F_i of stored bit positions (0 .. CodeBits(k)-1,
   relative to the ECC word) of lane i is flipped in the memory behind the port.

   Per ECC word the property says:
     |F| = 0 : data returned unchanged, nothing reported;
     |F| = 1 : data returned unchanged, never reported uncorrectable, counted as corrected unless the flipped bit is
               the overall parity bit itself (for that one bit both "counted" and "not counted" are allowed);
     |F| = 2 : an uncorrectable error is counted; never reported clean, never reported as corrected;
     |F| > 2 : nothing is required.
   The reports (sec/ded counters, sticky flags) exist once per PORT word, so the clauses are lifted to the word:
   with S = lanes with one flip, D = lanes with two flips and no lane with more,
     ded is counted (between 1 and |D| times) iff D # {};  sec is not counted when S = {};  sec is counted at most
     |S| times;  a lane with at most one flip returns its data unchanged.
   Which stored bit is "the overall parity bit" is NOT taken from the implementation: a single flip that is not
   counted as corrected is remembered (Uncounted), and at the end of a trace at most one bit position per lane may
   have been left uncounted (UncountedBad).  A trace therefore has to contain all single flips of the lanes it tests
   in isolation for this clause to have its full strength (the harness keeps them in one trace).

   Linearity remark: for a linear code the syndrome, hence the outcome class, depends on F only, not on the data;
   this is why the harness enumerates F exhaustively and samples data words.  The clauses below do not rely on it.

   Byte enables: a write that does not enable all bytes of every ECC word of the port word is reported as a
   granularity error (counter increases), a full write is not. *)
EXTENDS Integers, Sequences, FiniteSets, TLC

RECURSIVE SynBits(_, _)
SynBits(k, m) == IF 2^m >= m + k + 1 THEN m ELSE SynBits(k, m + 1)
CodeBits(k) == k + SynBits(k, 1) + 1

EccToSet(s) == {s[i] : i \in 1..Len(s)}
Singles(n1) == {{p} : p \in 0..(n1 - 1)}
Pairs(n1, lo, hi) == UNION {{{a, b} : b \in (a + 1)..(n1 - 1)} : a \in lo..hi}      \* pairs whose smaller position is in lo..hi

(* e = [c |-> "RD", wd, rd : per lane byte sequences, F : per lane sequence of flipped positions,
        s0,s1 / d0,d1 : sec / ded counter before and after, sf0,sf1 / df0,df1 : sticky flags before and after] *)
RdLanes(e) == 1..Len(e.F)
RdF(e) == [i \in RdLanes(e) |-> EccToSet(e.F[i])]
RdCard(e) == [i \in RdLanes(e) |-> Cardinality(RdF(e)[i])]
RdS(e) == {i \in RdLanes(e) : RdCard(e)[i] = 1}
RdD(e) == {i \in RdLanes(e) : RdCard(e)[i] = 2}
RdX(e) == {i \in RdLanes(e) : RdCard(e)[i] > 2}

RdEnvBad(n1, e) ==      \* harness errors, never a verdict
    {<<"flip position outside the ECC word", i - 1>> : i \in {j \in RdLanes(e) : \E p \in RdF(e)[j] : p < 0 \/ p >= n1}}
    \cup (IF Len(e.wd) # Len(e.F) \/ Len(e.rd) # Len(e.F) THEN {<<"malformed record">>} ELSE {})

RdJudge(e) ==
  LET F == RdF(e)  S == RdS(e)  D == RdD(e)  X == RdX(e)
      dsec == e.s1 - e.s0
      dded == e.d1 - e.d0
      secRaised == e.sf0 = 0 /\ e.sf1 # 0
      dedRaised == e.df0 = 0 /\ e.df1 # 0
  IN  {<<"data not returned unchanged although at most one stored bit of the ECC word was flipped", i - 1, F[i], e.wd[i], e.rd[i]>> :
            i \in {j \in RdLanes(e) : RdCard(e)[j] <= 1 /\ e.rd[j] # e.wd[j]}}
      \cup (IF X # {} THEN {} ELSE
            (IF D = {} /\ (dded # 0 \/ dedRaised)
                THEN {<<"reported as uncorrectable although no ECC word had two flipped bits", F, dded, e.df1>>} ELSE {})
       \cup (IF D # {} /\ (dded < 1 \/ dded > Cardinality(D))
                THEN {<<"two flipped bits not counted as one uncorrectable error", F, dded>>} ELSE {})
       \cup (IF D # {} /\ e.df0 = 0 /\ e.df1 = 0
                THEN {<<"two flipped bits not flagged as uncorrectable", F>>} ELSE {})
       \cup (IF D # {} /\ S = {} /\ (dsec # 0 \/ secRaised)
                THEN {<<"two flipped bits reported as a corrected error", F, dsec, e.sf1>>} ELSE {})
       \cup (IF D = {} /\ S = {} /\ (dsec # 0 \/ secRaised)
                THEN {<<"clean read reported as a corrected error", dsec, e.sf1>>} ELSE {})
       \cup (IF S # {} /\ (dsec < 0 \/ dsec > Cardinality(S))
                THEN {<<"corrected-error count moved by more than the number of single-flip ECC words", F, dsec>>} ELSE {})
       \cup (IF S # {} /\ dsec > 0 /\ e.sf0 = 0 /\ e.sf1 = 0
                THEN {<<"corrected error counted but not flagged", F>>} ELSE {}))

(* single flips that were not counted as corrected: candidates for "the overall parity bit" *)
Uncounted(e) ==
  IF RdX(e) = {} /\ RdD(e) = {} /\ RdS(e) # {} /\ e.s1 - e.s0 = 0
  THEN {<<i - 1, CHOOSE p \in RdF(e)[i] : TRUE>> : i \in RdS(e)} ELSE {}
UncountedBad(unc) ==
  {<<"single flips at more than one bit position of an ECC word are not counted as corrected", lane,
     {u[2] : u \in {v \in unc : v[1] = lane}}>> :
        lane \in {u[1] : u \in {v \in unc : \E w \in unc : w[1] = v[1] /\ w[2] # v[2]}}}

(* e = [c |-> "WE", we : per lane sequence of 0/1 byte enables, w0, w1 : granularity-error counter before / after] *)
WeFull(e) == \A i \in 1..Len(e.we) : \A j \in 1..Len(e.we[i]) : e.we[i][j] = 1
WeJudge(e) ==
  IF WeFull(e) /\ e.w1 # e.w0 THEN {<<"full write reported as a granularity error", e.w1 - e.w0>>}
  ELSE IF ~WeFull(e) /\ e.w1 <= e.w0 THEN {<<"write not enabling all bytes of an ECC word not reported as a granularity error", e.we>>}
  ELSE {}
====
