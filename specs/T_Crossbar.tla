---- MODULE T_Crossbar ----
(* Binding B2 (lock-step conformance) of D_Crossbar with the real litedram.core.crossbar.LiteDRAMCrossbar driven over
   abstract bank machines (a Python twin of the model's bank queues: lock = non-empty, ready = room, completion of the head
   chosen by the environment).  Per cycle the log gives every master's offer (valid, bank) and the bank chosen to complete;
   the model's per-master acceptance, per-bank valid and the master that receives the completing bank's strobe must equal
   what the real crossbar did. *)
EXTENDS D_Crossbar, TraceLib
VARIABLES l, tbad
WantOf(i) == [m \in Masters |-> [valid |-> Trace[i].want[m + 1].valid, bank |-> Trace[i].want[m + 1].bank]]
Mismatch(i) ==
    {<<"accepted", m>> : m \in {x \in Masters : accepted(x) # Trace[i].acc[x + 1]}}
    \cup {<<"bankvalid", b>> : b \in {x \in Banks : bankValid(x) # Trace[i].bvalid[x + 1]}}
    \cup (IF Trace[i].serve < B /\ q[Trace[i].serve] # <<>> /\ grant[Trace[i].serve] # Trace[i].strobe
          THEN {<<"strobe", Trace[i].serve>>} ELSE {})
TInit == /\ grant = [b \in Banks |-> 0] /\ q = [b \in Banks |-> <<>>] /\ hid = [b \in Banks |-> <<>>]
         /\ want = WantOf(2) /\ issued = [m \in Masters |-> 0] /\ done = [m \in Masters |-> 0] /\ bad = {}
         /\ l = 2 /\ tbad = {}
TNext == /\ l <= NLines
         /\ tbad' = tbad \cup {<<l>> \o f : f \in Mismatch(l)}
         /\ Tick(Trace[l].serve, IF l < NLines THEN WantOf(l + 1) ELSE want)
         /\ l' = l + 1
TSpec == TInit /\ [][TNext]_<<vars, l, tbad>>
AtEnd == (l = NLines + 1) => WriteVerdict(l - 1, tbad, [modelbad |-> bad])
====
