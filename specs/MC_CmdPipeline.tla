---- MODULE MC_CmdPipeline ----
(* Exhaustive check of D_CmdPipeline against the suppression/placement rule of R_CaStream: every input sequence
   (any commands on any phases in consecutive cycles).  Observer state is kept relative to the current cycle. *)
EXTENDS Integers, Sequences, FiniteSets, TLC, R_CaStream, D_CmdPipeline
CONSTANTS NPh, Span, Mode, Kinds

VARIABLES dm, ob, e0, e1, bad
vars == <<dm, ob, e0, e1, bad>>
cfg == [kind |-> "lpddr4", nph |-> NPh, span |-> Span, lat |-> 1, masked |-> TRUE]
Ob0 == [busyEnd |-> 0, lastSupp |-> 0 - Span, nEmit |-> 0, nSupp |-> 0, nMiss |-> 0]

Init == dm = DInit(NPh) /\ ob = Ob0 /\ e0 = {} /\ e1 = {} /\ bad = {}

\* walk the phases of one cycle in time order with the R rule; `sent` = the model's decision
RECURSIVE Walk(_, _, _, _)
Walk(in, al, p, acc) ==     \* acc = [st, bad, slots]; slots = pad slots (relative to the NEXT cycle) the model drives high
  IF p = NPh THEN acc
  ELSE IF in[p] = 0 THEN Walk(in, al, p + 1, acc)
  ELSE LET busy == CaBusy(acc.st, p)
           sent == al[p]
           st2 == IF sent THEN CaSent(cfg, acc.st, p) ELSE IF busy THEN CaSuppressed(acc.st, p) ELSE CaMissing(acc.st, p)
           b2 == IF busy /\ sent THEN {"sent while another command is in flight"}
                 ELSE IF ~busy /\ ~sent THEN {IF CaAfterSupp(cfg, acc.st, p) THEN "command missing after a suppressed command" ELSE "command missing"}
                 ELSE {}
           sl == IF sent THEN {p + j : j \in {k \in 0..Span - 1 : DBit(DCsWord(Span, in[p]), k) = 1}} ELSE {}
       IN Walk(in, al, p + 1, [st |-> st2, bad |-> acc.bad \cup b2, slots |-> acc.slots \cup sl])

Word(S) == LET RECURSIVE sum(_)
               sum(j) == IF j = NPh THEN 0 ELSE (IF j \in S THEN 2^j ELSE 0) + sum(j + 1) IN sum(0)
Clamp(x, lo) == IF x < lo THEN lo ELSE x

Step(in) ==
  LET al == DAllowed(NPh, Span, Mode, dm, in)
      w == Walk(in, al, 0, [st |-> ob, bad |-> {}, slots |-> {}])
  IN /\ dm' = DTick(NPh, Span, Mode, dm, in)
     /\ ob' = [Ob0 EXCEPT !.busyEnd = Clamp(w.st.busyEnd - NPh, 0), !.lastSupp = Clamp(w.st.lastSupp - NPh, 0 - Span)]
     /\ e0' = e1 \cup {s \in w.slots : s < NPh}
     /\ e1' = {s - NPh : s \in {x \in w.slots : x >= NPh}}
     /\ bad' = w.bad
Next == \E in \in [0..NPh - 1 -> Kinds \cup {0}] : Step(in)
Spec == Init /\ [][Next]_vars

\* the CS word on the pads is exactly what the commands the model decided to send require, one cycle later
Placement == DOutCs(NPh, dm) = Word(e0)
Strict == bad = {}
\* what the default ("basic") check guarantees: the only deviation is the documented cheap-check pattern
Tolerant == bad \subseteq {"command missing after a suppressed command"}
NoCollision == "sent while another command is in flight" \notin bad
====
