---- MODULE T_MultiplexerR ----
(* Binding B2 (lock-step conformance) of D_Multiplexer with the real litedram.core.multiplexer.Multiplexer: per cycle the
   logged bank-machine requests are the model's input; the model's per-bank-machine ready and its registered DFI phases
   (command kind and bank) must equal the logged ones. *)
EXTENDS D_MultiplexerR, TraceLib
VARIABLES l, bad
ReqOf(i) == [b \in BMs |-> Trace[i].req[b + 1]]
RinOf(i) == [valid |-> Trace[i].rin.valid, last |-> Trace[i].rin.last, kind |-> Trace[i].rin.kind, gnt |-> Trace[i].rin.gnt]
Norm(k) == IF k = "PREA" THEN "PRE" ELSE k      \* the pins do not distinguish (A10 is not compared here)
Mismatch(i) == (IF refReady # Trace[i].refready THEN {<<"refready", 0>>} ELSE {}) \cup {<<"ready", b>> : b \in {x \in BMs : accepted(x) # Trace[i].ready[x + 1]}}
               \cup {<<"dfi", p>> : p \in {x \in 1..Nph : Norm(dfi[x].kind) # Trace[i].dfi[x].kind \/ (dfi[x].kind # "NONE" /\ dfi[x].bm # Trace[i].dfi[x].bm)}}
TInit == Init /\ req = ReqOf(2) /\ rin = RinOf(2) /\ l = 2 /\ bad = {}
TNext == /\ l <= NLines
         /\ bad' = bad \cup {<<l>> \o f : f \in Mismatch(l)}
         /\ Tick
         /\ req' = IF l < NLines THEN ReqOf(l + 1) ELSE req
         /\ rin' = IF l < NLines THEN RinOf(l + 1) ELSE rin
         /\ l' = l + 1
TSpec == TInit /\ [][TNext]_<<vars, l, bad>>
AtEnd == (l = NLines + 1) => WriteVerdict(l - 1, bad, [fsm |-> fsm])
====
