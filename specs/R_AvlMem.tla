---- MODULE R_AvlMem ----
(* Requirement C11 -- Avalon-MM slave port with memory semantics, as a TOTAL monitor over per-cycle bus samples.
   Written from the property statement and the Avalon Interface Specification (Avalon-MM, waitrequest + pipelined
   reads with variable latency + bursts, constantBurstBehavior = false):
     * a command beat is ACCEPTED in a cycle with (read | write) & ~waitrequest; while waitrequest is high the master
       holds read/write/address/burstcount/byteenable/writedata unchanged;
     * write burst: the first accepted beat carries address A and burstcount N (address and burstcount of later beats are
       ignored); the k-th accepted beat (k = 0..N-1) writes word A + k under ITS byteenable; the master may negate
       write between beats (idle gaps), which neither ends the burst nor transfers data; no read is issued inside;
     * read (burst of N at A): exactly N readdatavalid beats, in order, beat k carrying word A + k as it was when the
       command was accepted (a write accepted while the read is outstanding makes both values acceptable); reads
       complete in command order; a readdatavalid beat with no outstanding read is a violation ("repeated beat"),
       missing beats are reported by the driver as TIMEOUT after cfg.bound cycles ("dropped beat");
     * nothing else changes: the final contents of the backing memory (MEM events) must match in EVERY byte.
   Sample e = [c |-> "AVL", t, n, rd, wr, a, bc, be (bits), d (bytes), wait, rdv, q (bytes, when rdv = 1)].
   cfg = [ab |-> bytes per Avalon word, pb |-> bytes per native word, base |-> base address in Avalon words, bound, maxburst].
   The state holds no time and no counters (the design model D_Avl2Native carries it); gap = idle cycles were skipped.
   Clauses starting with "ENV:" mean the MASTER (our driver / the model environment) broke an Avalon rule. *)
EXTENDS R_ByteMem

AvInit == [mem |-> BmInit,
           wl |-> 0, wa |-> 0,                 \* write burst: beats still to come, address of the next beat
           rq |-> <<>>,                        \* outstanding reads: [a, left, be, cells]
           hold |-> FALSE, cmd |-> <<>>,       \* command beat being held against waitrequest
           gapw |-> FALSE,                     \* diagnostic context only: an idle gap inside a write burst has occurred
           brst |-> FALSE,                     \* diagnostic context only: a burst (burstcount > 1) has been accepted
           dumped |-> {}]

AvCtx(s) == IF s.gapw THEN "after-gap-in-write-burst" ELSE IF s.brst THEN "after-burst" ELSE "plain"

AvBase(cfg, a) == (a - cfg.base) * cfg.ab
AvCmd(e) == [rd |-> e.rd, wr |-> e.wr, a |-> e.a, bc |-> e.bc, be |-> e.be, d |-> IF e.wr = 1 THEN e.d ELSE <<>>]

\* snapshot of the cells a read burst will return
AvCells(cfg, m, a, n) == [B \in AvBase(cfg, a) .. AvBase(cfg, a) + n * cfg.ab - 1 |-> BmGet(m, B)]
\* a write accepted while reads are outstanding: its bytes become alternatives for them
AvAlt(cfg, rq, base, en, d) ==
    [i \in DOMAIN rq |-> [rq[i] EXCEPT !.cells = [B \in DOMAIN rq[i].cells |->
          IF B >= base /\ B < base + cfg.ab /\ en[B - base + 1] = 1 THEN rq[i].cells[B] \cup {d[B - base + 1]} ELSE rq[i].cells[B]]]]

AvStep(cfg, s, e, gap) ==     \* -> [s, bad, tags]
  CASE e.c = "AVL" ->
    LET active == e.rd = 1 \/ e.wr = 1
        envH == IF s.hold /\ (gap \/ AvCmd(e) # s.cmd)
                THEN {<<"ENV: master changed or withdrew a command while waitrequest was high">>} ELSE {}
        envX == IF e.rd = 1 /\ e.wr = 1 THEN {<<"ENV: read and write asserted together">>} ELSE {}
        envR == IF e.rd = 1 /\ s.wl > 0 THEN {<<"ENV: read issued inside a write burst">>} ELSE {}
        \* ---- 1. read data beat (belongs to a read accepted in an EARLIER cycle)
        hasR == s.rq # <<>>
        hd   == IF hasR THEN Head(s.rq) ELSE [a |-> 0, left |-> 0, be |-> <<>>, cells |-> <<>>]
        rb   == AvBase(cfg, hd.a)
        wrongR == IF e.rdv = 1 /\ hasR THEN {k \in BmSel(cfg.ab, hd.be) : e.q[k + 1] \notin hd.cells[rb + k]} ELSE {}
        badR == IF e.rdv = 1 /\ ~hasR THEN {<<"readdatavalid beat without an outstanding read", AvCtx(s)>>}
                ELSE {<<"read beat does not carry the addressed word", AvCtx(s), hd.a, k, e.q[k + 1], hd.cells[rb + k]>> : k \in wrongR}
        rq1  == IF e.rdv = 1 /\ hasR
                THEN (IF hd.left = 1 THEN Tail(s.rq) ELSE <<[hd EXCEPT !.a = hd.a + 1, !.left = hd.left - 1]>> \o Tail(s.rq))
                ELSE s.rq
        \* ---- 2. command beat
        acc  == active /\ e.wait = 0
        first == s.wl = 0
        wAddr == IF first THEN e.a ELSE s.wa
        envC == IF acc /\ (e.rd = 1 \/ first) /\ (e.bc < 1 \/ e.bc > cfg.maxburst \/ e.a < cfg.base)
                THEN {<<"ENV: burstcount outside 1..maxburst or address below base">>} ELSE {}
        wbase == AvBase(cfg, wAddr)
        isW  == acc /\ e.wr = 1
        isR  == acc /\ e.rd = 1 /\ e.wr = 0
        mem1 == IF isW THEN BmWrite(s.mem, wbase, cfg.ab, e.be, e.d) ELSE s.mem
        rq2  == IF isW /\ rq1 # <<>> THEN AvAlt(cfg, rq1, wbase, e.be, e.d)
                ELSE IF isR THEN Append(rq1, [a |-> e.a, left |-> e.bc, be |-> e.be, cells |-> AvCells(cfg, s.mem, e.a, e.bc)])
                ELSE rq1
        tags == (IF e.rdv = 1 THEN {"rdv"} ELSE {})
                \cup (IF isW /\ first THEN {IF e.bc > 1 THEN "write-burst" ELSE "write-single"} ELSE {})
                \cup (IF isW /\ ~first THEN {"write-beat"} ELSE {})
                \cup (IF isR THEN {IF e.bc > 1 THEN "read-burst" ELSE "read-single"} ELSE {})
                \cup (IF active /\ e.wait = 1 THEN {"wait"} ELSE {})
                \cup (IF s.wl > 0 /\ (gap \/ e.wr = 0) THEN {"gap-in-write-burst"} ELSE {})
                \cup (IF isW /\ rq1 # <<>> THEN {"write-while-read-outstanding"} ELSE {})
    IN [s |-> [s EXCEPT !.mem = mem1, !.rq = rq2,
                        !.wl = IF isW THEN (IF first THEN e.bc - 1 ELSE s.wl - 1) ELSE s.wl,
                        !.wa = IF isW THEN wAddr + 1 ELSE s.wa,
                        !.hold = active /\ e.wait = 1, !.cmd = AvCmd(e),
                        !.gapw = s.gapw \/ (s.wl > 0 /\ (gap \/ e.wr = 0)),
                        !.brst = s.brst \/ (acc /\ (e.rd = 1 \/ first) /\ e.bc > 1)],
        bad |-> envH \cup envX \cup envR \cup envC \cup badR, tags |-> tags]
  [] e.c = "TIMEOUT" ->
       [s |-> [s EXCEPT !.rq = <<>>, !.wl = 0, !.hold = FALSE],
        bad |-> IF s.hold THEN {<<"command never accepted (waitrequest stuck) within the bound", AvCtx(s), IF s.cmd.wr = 1 THEN "write" ELSE "read", IF s.wl > 0 THEN "inside-burst" ELSE "first-beat">>}
                ELSE IF s.rq # <<>> THEN {<<"read beats missing within the bound", AvCtx(s), Head(s.rq).a, Head(s.rq).left>>}
                ELSE {<<"ENV: TIMEOUT reported while nothing is outstanding">>},
        tags |-> {"timeout"}]
  [] e.c = "MEM" ->
       LET base == e.a * cfg.pb
           wrong == BmWrongLanes(s.mem, base, cfg.pb, BmAllOnes(cfg.pb), e.d) IN
       [s |-> [s EXCEPT !.dumped = s.dumped \cup {e.a}],
        bad |-> {<<"final memory content is not what the accepted beats left", AvCtx(s), e.a, k, e.d[k + 1], BmGet(s.mem, base + k)>> : k \in wrong},
        tags |-> {"mem"}]
  [] e.c = "END" ->
       [s |-> s,
        bad |-> (IF s.hold \/ s.rq # <<>> \/ s.wl > 0 THEN {<<"ENV: trace ends with a command or burst outstanding">>} ELSE {})
                \cup (IF \E B \in DOMAIN s.mem : (B \div cfg.pb) \notin s.dumped
                      THEN {<<"ENV: a written native word was not dumped">>} ELSE {}),
        tags |-> {"end"}]
  [] OTHER -> [s |-> s, bad |-> {<<"ENV: unknown event">>}, tags |-> {}]
====
