---- MODULE T_TimingConv ----
(* Trace validation for C16: one NDJSON line per call record of the REAL litedram.modules code.
   line 1   : header (free-form)
   k = "D"  : declaration block: the library's declared datasheet entry of one (module class, speedgrade, fine refresh
              mode): d = sequence of <<ckm, ps, declared>> in MinNames order, refi = refresh interval in ps.
   k = "S"  : like "D" for a module built from SPD bytes, plus b = the raw SPD bytes and frm; the SPD contents are
              decoded here (R_TimingConv!SpdDecode), never taken from the implementation.
   k = "F"  : one real call  cls(clk_freq = f kHz, rate = 1:n, speedgrade, fine_refresh_mode).timing_settings
              -> o = handed cycle counts (MinNames order, then tRC, then tREFI; -1 = None) for the current block.
   Broken clauses are aggregated per (clause, timing): first line, number of records, have/need of the first. *)
EXTENDS TraceLib, R_TimingConv

VARIABLES l, cur, agg, acc
vars == <<l, cur, agg, acc>>

NoCur == [id |-> 0, ds |-> <<>>, refi |-> 0, hasspd |-> FALSE, spd |-> <<>>, frm |-> "1x"]
TInit == /\ l = 2 /\ cur = NoCur /\ agg = <<>>
         /\ acc = [nF |-> 0, nTight |-> 0, blocks |-> {}, tightblocks |-> {}, spds |-> <<>>, env |-> {}]

Merge(a, nb, line, blk) ==
    LET nk == {<<b[1], b[2]>> : b \in nb}
    IN [k \in (DOMAIN a) \cup nk |->
          IF k \in nk
          THEN IF k \in DOMAIN a THEN [a[k] EXCEPT !.n = @ + 1]
               ELSE LET b == CHOOSE x \in nb : <<x[1], x[2]>> = k
                    IN [first |-> line, n |-> 1, have |-> b[3], need |-> b[4], blk |-> blk]
          ELSE a[k]]

WellF(e) == /\ Has(e, "n") /\ Has(e, "f") /\ Has(e, "o")
            /\ e.n \in {1, 2, 4, 8} /\ e.f > 0 /\ e.f * e.n < 2000000000
            /\ Len(e.o) = NMin + 2

TNext ==
  /\ l <= NLines
  /\ l' = l + 1
  /\ LET e == Trace[l] IN
     CASE e.k = "D" ->
            /\ cur' = [id |-> l, ds |-> e.d, refi |-> e.refi, hasspd |-> FALSE, spd |-> <<>>, frm |-> e.frm]
            /\ agg' = agg
            /\ acc' = IF Len(e.d) = NMin /\ e.refi > 0 THEN acc ELSE [acc EXCEPT !.env = @ \cup {<<l, "malformed D record">>}]
       [] e.k = "S" ->
            LET ok == SpdOk(e.b)
                sp == IF ok THEN SpdDecode(e.b) ELSE <<>>
            IN /\ cur' = [id |-> l, ds |-> e.d, refi |-> e.refi, hasspd |-> ok, spd |-> sp, frm |-> e.frm]
               /\ agg' = agg
               /\ acc' = IF ok /\ Len(e.d) = NMin
                         THEN [acc EXCEPT !.spds = Append(@, [line |-> l, frm |-> e.frm, spd |-> sp, refi |-> SpdRefi(e.frm)])]
                         ELSE [acc EXCEPT !.env = @ \cup {<<l, "SPD image not decodable by the specification (unknown type or timebase)">>}]
       [] e.k = "F" ->
            IF cur.id = 0 \/ ~WellF(e)
            THEN /\ cur' = cur /\ agg' = agg /\ acc' = [acc EXCEPT !.env = @ \cup {<<l, "malformed F record">>}]
            ELSE LET ev == Eval("", cur.ds, cur.refi, e.o, e.n, e.f)
                     nb == ev.bad \cup (IF cur.hasspd THEN SpdBad(cur.spd, cur.frm, e.o, e.n, e.f) ELSE {})
                     tg == ev.tight
                 IN /\ cur' = cur
                    /\ agg' = IF nb = {} THEN agg ELSE Merge(agg, nb, l, cur.id)
                    /\ acc' = [acc EXCEPT !.nF = @ + 1, !.nTight = @ + (IF tg THEN 1 ELSE 0),
                                          !.blocks = @ \cup {cur.id}, !.tightblocks = IF tg THEN @ \cup {cur.id} ELSE @]
       [] OTHER -> /\ cur' = cur /\ agg' = agg /\ acc' = [acc EXCEPT !.env = @ \cup {<<l, "unknown record kind">>}]

TSpec == TInit /\ [][TNext]_vars
Bad == {<<k[1], k[2], agg[k].first, agg[k].n, agg[k].have, agg[k].need, agg[k].blk>> : k \in DOMAIN agg}
AtEnd == (l = NLines + 1) => WriteVerdict(l - 1, Bad, acc)
====
