---- MODULE R_Crossing ----
(* Requirement C08, stream part: across a clock-domain crossing every channel (cmd, wdata, rdata) delivers every word
   exactly once and in order -- whatever the two clocks do.  TOTAL monitor over the handshakes on both sides:
     Push(ch, v): a word handed to the crossing on the sending side (valid & ready seen at the sender's clock edge)
     Pop(ch, v) : a word handed over by the crossing on the receiving side
   Clauses:  a delivered word must be the oldest word sent and not yet delivered (else: duplicated / invented / reordered /
   altered / an earlier word was lost);  at the end of a run nothing that was sent may be undelivered.
   After the first order/value failure on a channel the channel is marked broken and further pops are not judged (one lost
   word would otherwise make every later word a separate report).
   The memory-semantics part of C08 is R_PortMem applied to the user port (see T_Crossing).
   Written from the property statement; nothing here depends on how the crossing is built. *)
EXTENDS Integers, Sequences, FiniteSets, TLC

Channels == {"cmd", "wdata", "rdata"}
InitStreams == [ch \in Channels |-> [q |-> <<>>, npush |-> 0, npop |-> 0, broken |-> FALSE]]

StreamPush(st, ch, v) ==
    [s |-> [st EXCEPT ![ch].q = Append(@, v), ![ch].npush = @ + 1], bad |-> {}]

StreamPop(st, ch, v) ==
    LET c == st[ch] IN
    IF c.broken THEN [s |-> [st EXCEPT ![ch].npop = @ + 1], bad |-> {}]
    ELSE IF c.q = <<>>
    THEN [s |-> [st EXCEPT ![ch].npop = @ + 1, ![ch].broken = TRUE],
          bad |-> {<<"word delivered that was never sent (duplicated or invented)", ch, c.npop + 1>>}]
    ELSE IF Head(c.q) = v
    THEN [s |-> [st EXCEPT ![ch].q = Tail(@), ![ch].npop = @ + 1], bad |-> {}]
    ELSE [s |-> [st EXCEPT ![ch].q = Tail(@), ![ch].npop = @ + 1, ![ch].broken = TRUE],
          bad |-> {<<"word delivered out of order, altered, or after a lost word", ch, c.npop + 1, v, Head(c.q)>>}]

StreamEnd(st) ==
    {<<"words sent but never delivered", ch, Len(st[ch].q)>> : ch \in {c \in Channels : st[c].q # <<>> /\ ~st[c].broken}}

(* occupancy bound usable by design models: words in flight on a channel *)
InFlight(st, ch) == Len(st[ch].q)
====
