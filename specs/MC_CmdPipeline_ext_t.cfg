SPECIFICATION Spec
CONSTANTS
  NPh = 8
  Span = 4
  Mode = "extended"
  Kinds = {2}
INVARIANT Placement
INVARIANT Strict
CHECK_DEADLOCK FALSE
