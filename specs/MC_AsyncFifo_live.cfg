SPECIFICATION FairSpec
CONSTANTS Depth = 4
 MaxPush = 6
 Bug = "none"
INVARIANT ReqOK
PROPERTY Drains
