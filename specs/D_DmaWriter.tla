---- MODULE D_DmaWriter ----
(* Design model of litedram/frontend/dma.py: LiteDRAMDMAWriter on a native port with pulse semantics, one action per
   clock edge.  Registers: data FIFO `dat`, the memory's queue of accepted write commands `pend` (with their age), the
   producer's pending offer `off`.  The command is offered only while the data FIFO has room and the data word enters
   the FIFO in the very cycle the command is accepted; the memory strobes wdata.ready for the oldest pending write as a
   one-cycle pulse at any time >= Lmin cycles after its command, whether or not data is offered (-> WDROP, beat lost). *)
EXTENDS Integers, Sequences, FiniteSets, TLC, D_Fifo, R_Stream
CONSTANTS Depths, Buffereds, Lmins,      \* sets: the configuration cf is chosen in Init and never changes
          Addrs, Datas,
          Bug           \* "none" | "push_without_cmd" | "cmd_ignores_fifo"
VARIABLES cf, dat, pend, off, obs, bad, inp, ev
vars == <<cf, dat, pend, off, obs, bad, inp, ev>>
View == <<cf, dat, pend, off, obs, bad>>
Depth == cf.depth
Buffered == cf.buffered
Lmin == cf.lmin

DatKind == IF Depth = 1 THEN "pipe" ELSE IF Buffered THEN "buffered" ELSE "sync"
OCfg == [kind |-> "writer", nb |-> 1, depth |-> Depth, k |-> 0, base |-> 0, cap |-> 0]
None == [v |-> FALSE, a |-> 0, d |-> 0]
Offers == {None} \cup {[v |-> TRUE, a |-> a, d |-> d] : a \in Addrs, d \in Datas}

Init == /\ cf \in [depth : Depths, buffered : Buffereds, lmin : Lmins] /\ (cf.depth = 1 => ~cf.buffered)
        /\ dat = FifoInit /\ pend = <<>> /\ off \in Offers
        /\ obs = InitStream([kind |-> "writer"]) /\ bad = {} /\ inp = [cmdReady |-> FALSE, strobe |-> FALSE] /\ ev = <<>>

Tick(cmdReady, strobe, nextOff) ==
  LET datValid == SrcValid(DatKind, dat)
      datReady == SinkReady(DatKind, Depth, dat, strobe)          \* fifo.source.ready = wdata.ready
      cmdValid == off.v /\ (IF Bug = "cmd_ignores_fifo" THEN TRUE ELSE datReady)
      accept   == cmdValid /\ cmdReady                            \* = sink.valid & sink.ready
      push     == off.v /\ (IF Bug = "push_without_cmd" THEN TRUE ELSE cmdReady)      \* fifo.sink.valid
      evs == (IF accept THEN <<[c |-> "IN", a |-> off.a, d |-> <<off.d>>], [c |-> "CMD", p |-> 0, we |-> TRUE, a |-> off.a]>> ELSE <<>>)
             \o (IF strobe THEN (IF datValid THEN <<[c |-> "WDATA", p |-> 0, d |-> <<SrcData(DatKind, dat)>>, m |-> <<1>>]>>
                                 ELSE <<[c |-> "WDROP", p |-> 0]>>) ELSE <<>>)
      r == StreamSteps(OCfg, [s |-> obs, bad |-> {}], evs)
      aged == [i \in 1..Len(pend) |-> [pend[i] EXCEPT !.age = IF @ < Lmin THEN @ + 1 ELSE @]]
      pend1 == IF strobe THEN Tail(aged) ELSE aged
  IN /\ cf' = cf
     /\ dat' = FifoNext(DatKind, Depth, dat, push, off.d, strobe)
     /\ pend' = IF accept THEN Append(pend1, [a |-> off.a, age |-> 1]) ELSE pend1
     /\ off' = IF off.v /\ ~accept THEN off ELSE nextOff
     /\ obs' = r.s /\ bad' = bad \cup r.bad
     /\ inp' = [cmdReady |-> cmdReady, strobe |-> strobe] /\ ev' = evs

Next == \E cmdReady, strobe \in BOOLEAN, nextOff \in Offers :
          /\ strobe => (pend # <<>> /\ Head(pend).age >= Lmin)
          /\ Tick(cmdReady, strobe, nextOff)
Spec == Init /\ [][Next]_vars

Holds == bad = {}
TypeOK == Len(dat.q) <= Depth /\ Len(pend) <= Depth + 2
NeverFull == ~(FifoLevel(DatKind, dat) >= Depth /\ off.v)          \* vacuity guard (must be reachable)
====
