---- MODULE T_AxiMem ----
(* Trace validation of executions of the REAL LiteDRAMAXI2Native bridge (AXI master driver in front, ideal native
   memory behind) against R_AxiMem.  Line 1 = cfg [nb, base, nwords, ...].  A "NEW" event (same fields as cfg) resets
   the monitor so that several independent executions can be batched in one file. *)
EXTENDS TraceLib, R_AxiMem
Cfg0 == Trace[1]
VARIABLES l, cfg, ax, bad, tot
vars == <<l, cfg, ax, bad, tot>>
Zero == [nR |-> 0, nRacy |-> 0, nOrdered |-> 0, nB |-> 0, nDump |-> 0, nW |-> 0, runs |-> 0]
Acc(t, s) == [nR |-> t.nR + s.nR, nRacy |-> t.nRacy + s.nRacy, nOrdered |-> t.nOrdered + s.nOrdered, nB |-> t.nB + s.nB,
              nDump |-> t.nDump + s.nDump, nW |-> t.nW + s.kw, runs |-> t.runs + 1]
TInit == l = 2 /\ cfg = Cfg0 /\ ax = InitAxi(Cfg0) /\ bad = {} /\ tot = Zero
TNext == /\ l <= NLines
         /\ l' = l + 1
         /\ LET e == Trace[l] IN
            IF e.c = "NEW" THEN cfg' = e /\ ax' = InitAxi(e) /\ bad' = bad /\ tot' = Acc(tot, ax)
            ELSE LET r == AxiStep(cfg, ax, e) IN
                 /\ cfg' = cfg /\ ax' = r.s /\ tot' = tot
                 /\ bad' = bad \cup {<<l>> \o x : x \in r.bad}
TSpec == TInit /\ [][TNext]_vars
AtEnd == (l = NLines + 1) => WriteVerdict(l - 1, bad, Acc(tot, ax))
====
