---- MODULE A_BankMachine ----
(* Abstract bank machine: what a BankMachine shows to the multiplexer and the refresher, without addresses, FIFOs and timers.
   One source of truth used twice:
     - MC_MuxRef composes NB of these with the lock-step bound D_MultiplexerR and D_Refresher;
     - MC_BankMachine checks, as an action property over every step of the lock-step bound D_BankMachine, that the real
       design is one of the behaviours allowed here (refinement mapping: REGULAR/TRCD -> REG, PRECHARGE -> PRE,
       AUTOPRECHARGE/TRP/ACTIVATE -> ACT, REFRESH -> REF).
   b = abstract state, k = kind presented on cmd ("NONE" = cmd.valid low), o = row open (meaningful in REG), g = refresh_gnt,
   acc = cmd accepted this cycle, rq = refresh_req this cycle; 2 = next cycle.  mayWait bounds the timer waits (liveness). *)
States == {"REG", "PRE", "ACT", "REF"}
Cas == {"RD", "WR"}
NoCas(rq2, S) == IF rq2 THEN S \ Cas ELSE S           \* REGULAR looks at refresh_req before presenting its read/write
Waiting(b, rq, b2, k2, g2) == \/ (b2 \in {"PRE", "ACT"} /\ k2 = "NONE")          \* tWTP/tRAS/tRP/tRC count-downs
                              \/ (b2 = "REF" /\ ~g2)                              \* grant waits for tWTP and tRAS
                              \/ (b = "REG" /\ rq /\ b2 = "REG")                  \* TRCD does not look at refresh_req
Step(b, k, o, g, acc, rq, b2, k2, o2, g2, rq2, mayWait) ==
  /\ Waiting(b, rq, b2, k2, g2) => mayWait
  /\ (b2 # "REF") => ~g2
  /\ CASE b = "REG" ->
            IF rq THEN /\ k = "NONE"
                       /\ \/ (b2 = "REF" /\ k2 = "NONE" /\ ~o2)
                          \/ (b2 = "REG" /\ k2 = "NONE" /\ o2 = o)
            ELSE IF k \in Cas /\ acc THEN \/ (b2 = "REG" /\ o2 = o /\ k2 \in NoCas(rq2, {"NONE", "RD", "WR"}))
                                          \/ (b2 = "ACT" /\ ~o2 /\ k2 \in {"NONE", "ACT"})           \* auto-precharge
            ELSE IF k \in Cas THEN b2 = "REG" /\ o2 = o /\ k2 = (IF rq2 THEN "NONE" ELSE k)           \* held until accepted
            ELSE /\ k = "NONE"
                 /\ \/ (b2 = "REG" /\ o2 = o /\ k2 \in NoCas(rq2, IF o THEN {"NONE", "RD", "WR"} ELSE {"NONE"}))
                    \/ (o /\ b2 = "PRE" /\ ~o2 /\ k2 \in {"NONE", "PRE"})                             \* row miss
                    \/ (~o /\ b2 = "ACT" /\ ~o2 /\ k2 \in {"NONE", "ACT"})
       [] b = "PRE" ->
            IF k = "PRE" /\ acc THEN b2 = "ACT" /\ ~o2 /\ k2 \in {"NONE", "ACT"}
            ELSE b2 = "PRE" /\ ~o2 /\ k2 \in {"NONE", "PRE"} /\ (k = "PRE" => k2 = "PRE") /\ k \in {"NONE", "PRE"}
       [] b = "ACT" ->
            IF k = "ACT" /\ acc THEN b2 = "REG" /\ o2 /\ k2 \in NoCas(rq2, {"NONE", "RD", "WR"})
            ELSE b2 = "ACT" /\ ~o2 /\ k2 \in {"NONE", "ACT"} /\ (k = "ACT" => k2 = "ACT") /\ k \in {"NONE", "ACT"}
       [] b = "REF" ->
            /\ k = "NONE"
            /\ IF rq THEN b2 = "REF" /\ k2 = "NONE" /\ ~o2 /\ (g => g2)
               ELSE b2 = "REG" /\ k2 = "NONE" /\ ~o2
====
