---- MODULE D_CmdPipeline ----
(* Design model (layer D) of litedram/phy/utils.py: CommandsPipeline (valid history, overlap masking) and the ConstBitSlip
   instances that place each phase adapter's CS word into the serializer words.  One DTick per controller clock edge.
   nph  = number of DFI phases = CS bits serialised per controller cycle;  span = cmd_nphases_span (4 for LPDDR4)
   mode = "basic"    : allowed[p] = no adapter was VALID on the span-1 phases before p      (the default of the code)
          "extended" : allowed[p] = no adapter was valid AND not itself masked ...           (extended_overlaps_check=True)
          "short"    : seeded bug for the negative control (looks only span-2 phases back)
   in[p] \in {0, 1, 2}: nothing / single small command (DESELECT + cmd: CS word 0100) / two-part command (CS word 0101)
   State: prev[p] = adapter p was valid in the previous cycle (ConstBitSlip(register=False).reg of `valids`)
          r[p]    = the 2*nph-bit shift register of the CS ConstBitSlip of phase p (as an integer, bit 0 = oldest) *)
EXTENDS Integers, Sequences, FiniteSets

DBit(x, i) == (x \div (2^i)) % 2
DInit(nph) == [prev |-> [p \in 0..nph - 1 |-> 0], r |-> [p \in 0..nph - 1 |-> 0]]

\* valids.r = Cat(reg, i): index 0..nph-1 = previous cycle, nph..2nph-1 = this cycle
DHistRaw(nph, dm, in) == [i \in 0..2 * nph - 1 |-> IF i < nph THEN dm.prev[i] ELSE IF in[i - nph] # 0 THEN 1 ELSE 0]
RECURSIVE DExt(_, _, _, _)
DExt(raw, back, i, acc) ==        \* acc = sequence of the filtered bits 0..i-1 (1-based storage)
  IF i = Len(raw) THEN acc
  ELSE LET lo == IF i - back < 0 THEN 0 ELSE i - back
           before == \E j \in lo..i - 1 : acc[j + 1] = 1
       IN DExt(raw, back, i + 1, Append(acc, IF raw[i + 1] = 1 /\ ~before THEN 1 ELSE 0))
DHist(nph, span, mode, dm, in) ==
  LET raw == DHistRaw(nph, dm, in) IN
  IF mode = "extended"
  THEN LET s == DExt([i \in 1..2 * nph |-> raw[i - 1]], span - 1, 0, <<>>) IN [i \in 0..2 * nph - 1 |-> s[i + 1]]
  ELSE raw
DAllowed(nph, span, mode, dm, in) ==
  LET h == DHist(nph, span, mode, dm, in)
      back == IF mode = "short" THEN span - 2 ELSE span - 1
  IN [p \in 0..nph - 1 |-> ~\E i \in nph + p - back .. nph + p - 1 : h[i] = 1]

\* CS word an adapter presents (bit j = j-th CK of the command)
DCsWord(span, kind) == IF kind = 2 THEN 1 + 2^(span - 2) ELSE IF kind = 1 THEN 2^(span - 2) ELSE 0

DTick(nph, span, mode, dm, in) ==
  LET al == DAllowed(nph, span, mode, dm, in) IN
  [prev |-> [p \in 0..nph - 1 |-> IF in[p] # 0 THEN 1 ELSE 0],
   r |-> [p \in 0..nph - 1 |-> (dm.r[p] \div (2^nph)) + (IF al[p] THEN DCsWord(span, in[p]) ELSE 0) * (2^nph)]]

\* out.cs of the current cycle: OR over the phases of r[p][nph-p : 2nph-p]
DOutCs(nph, dm) ==
  LET bit(j) == IF \E p \in 0..nph - 1 : DBit(dm.r[p], nph - p + j) = 1 THEN 1 ELSE 0
      RECURSIVE sum(_)
      sum(j) == IF j = nph THEN 0 ELSE bit(j) * (2^j) + sum(j + 1)
  IN sum(0)
====
