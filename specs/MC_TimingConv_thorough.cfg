SPECIFICATION Spec
INVARIANT Lemma
CONSTANTS Bug = FALSE  Rounds = 1000
CHECK_DEADLOCK FALSE
