SPECIFICATION Spec
INVARIANT Lemma
CONSTANTS Bug = FALSE  Rounds = 2500
CHECK_DEADLOCK FALSE
