---- MODULE MC_UpConverter ----
(* Model-checking wrapper for D_UpConverter; constants are assigned in the MC_UpConverter_*.cfg files. *)
EXTENDS D_UpConverter
====
