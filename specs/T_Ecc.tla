---- MODULE T_Ecc ----
(* Trace validation of fault-enumeration records taken from the REAL LiteDRAMNativePortECC netlist (C15).
   Line 1 (cfg): [k, lanes, wto, needS, slo, shi, allLanes, plo, phi].  Events: RD / WE records (see R_Ecc), LOST (the memory
   strobed write data that the port did not present), END.
   Cover condition (so that "exhaustive" is measured by TLC, not asserted by the harness): cov collects <<lane, F>> of
   every ISOLATED case (exactly one lane with flips).  At the end:
     needS  -> every single position of every lane in slo..shi was seen in isolation;
     plo..phi non-empty -> every pair of Pairs(CodeBits(k), plo, phi) was seen in isolation on some lane
                           (on every lane when allLanes). *)
EXTENDS TraceLib, R_Ecc
Cfg == Trace[1]
N1 == CodeBits(Cfg.k)
VARIABLES l, unc, cov, cnt, bad, envbad
vars == <<l, unc, cov, cnt, bad, envbad>>
TInit == l = 2 /\ unc = {} /\ cov = {} /\ bad = {} /\ envbad = {}
         /\ cnt = [rd |-> 0, we |-> 0, clean |-> 0, single |-> 0, double |-> 0, multi |-> 0]
Iso(e) == LET ne == {i \in RdLanes(e) : RdF(e)[i] # {}} IN
          IF Cardinality(ne) = 1 THEN {<<(CHOOSE i \in ne : TRUE) - 1, RdF(e)[CHOOSE i \in ne : TRUE]>>} ELSE {}
TNext == /\ l <= NLines
         /\ l' = l + 1
         /\ LET e == Trace[l] IN
            CASE e.c = "RD" ->
                  /\ bad' = bad \cup {<<l, "C15">> \o x : x \in RdJudge(e)}
                  /\ envbad' = envbad \cup {<<l>> \o x : x \in RdEnvBad(N1, e)}
                                      \cup (IF Len(e.F) # Cfg.lanes THEN {<<l, "lane count">>} ELSE {})
                  /\ unc' = unc \cup Uncounted(e)
                  /\ cov' = cov \cup Iso(e)
                  /\ cnt' = [cnt EXCEPT !.rd = @ + 1,
                                        !.clean = @ + (IF \A i \in RdLanes(e) : RdF(e)[i] = {} THEN 1 ELSE 0),
                                        !.single = @ + (IF Iso(e) # {} /\ RdS(e) # {} THEN 1 ELSE 0),
                                        !.double = @ + (IF Iso(e) # {} /\ RdD(e) # {} THEN 1 ELSE 0),
                                        !.multi = @ + (IF Iso(e) = {} /\ \E i \in RdLanes(e) : RdF(e)[i] # {} THEN 1 ELSE 0)]
              [] e.c = "WE" ->
                  /\ bad' = bad \cup {<<l, "C15">> \o x : x \in WeJudge(e)}
                  /\ cnt' = [cnt EXCEPT !.we = @ + 1]
                  /\ UNCHANGED <<unc, cov, envbad>>
              [] e.c = "LOST" ->
                  /\ bad' = bad \cup {<<l, "C15", "write data not presented when the memory strobed it (stored word lost)">>}
                  /\ UNCHANGED <<unc, cov, cnt, envbad>>
              [] e.c = "END" ->
                  /\ bad' = bad \cup {<<l, "C15">> \o x : x \in UncountedBad(unc)}
                  /\ UNCHANGED <<unc, cov, cnt, envbad>>
              [] OTHER -> envbad' = envbad \cup {<<l, "unknown event">>} /\ UNCHANGED <<unc, cov, cnt, bad>>
TSpec == TInit /\ [][TNext]_vars
Lanes0 == 0..(Cfg.lanes - 1)
CoverS == ~Cfg.needS \/ \A ln \in Cfg.slo..Cfg.shi : \A p \in 0..(N1 - 1) : <<ln, {p}>> \in cov
CoverP == \A F \in Pairs(N1, Cfg.plo, Cfg.phi) :
             IF Cfg.allLanes THEN \A ln \in Lanes0 : <<ln, F>> \in cov ELSE \E ln \in Lanes0 : <<ln, F>> \in cov
AtEnd == (l = NLines + 1) =>
            WriteVerdict(l - 1, bad, [n1 |-> N1, cnt |-> cnt, envbad |-> envbad, coverS |-> CoverS, coverP |-> CoverP,
                                      isolated |-> Cardinality(cov), uncounted |-> unc])
====
