SPECIFICATION Spec
INVARIANT Lemma
CONSTANTS Bug = TRUE  Rounds = 150
CHECK_DEADLOCK FALSE
