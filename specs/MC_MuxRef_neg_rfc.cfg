SPECIFICATION MSpec
CONSTANTS NB = 2
 Nph = 2
 RdPhase = 0
 WrPhase = 1
 tRRD = 1
 tFAW = 0
 tCCD = 1
 tWTRc = 2
 ReadLatency = 3
 ReadTime = 3
 WriteTime = 2
 WtrNeedsRead = FALSE
 tREFI = 9
 N = 1
 tRP = 2
 tRFC = 2
 WithZq = FALSE
 tZQCS = 2
 ZqPeriod = 31
 ZqLatch = TRUE
 TimerCycles = 9
 DMaxG = 1
 WL = 1
 BLCK = 2
 tWTRdev = 1
 tRFCdev = 6
 BmRefreshFirst = TRUE
INVARIANT Legal
VIEW View
CHECK_DEADLOCK FALSE
