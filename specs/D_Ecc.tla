---- MODULE D_Ecc ----
(* Design-level model for C15: the SECDED mechanism named by the property's anchors (per-lane Hamming encoder on the
   write path, decoder on the read path), written from the standard construction -- check bits at the power-of-two
   positions 1,2,4,.. of an N-bit Hamming word, one overall parity bit in front (stored position 0), syndrome-addressed
   correction, "syndrome # 0 and overall parity wrong -> corrected, syndrome # 0 and overall parity right -> double".
   TLC enumerates EVERY data word and EVERY flip set of at most two stored bits for a small word size K and checks the
   modelled outcome against the same requirement operators that judge the real netlist (RdJudge of R_Ecc).  This is
   what backs sampling of data words in the fault enumeration on the real code: for K = 8 (a lane width in use) the
   whole data space is covered here.  NoParityCheck = TRUE is the seeded bug of the negative control (every non-zero
   syndrome is reported as a corrected error). *)
EXTENDS Integers, Sequences, FiniteSets, TLC, R_Ecc
CONSTANTS K, NoParityCheck
M == SynBits(K, 1)
N == K + M
Pow2s == {2^i : i \in 0..(M - 1)}
DataPos == {p \in 1..N : p \notin Pow2s}
RECURSIVE Rank(_, _)
Rank(p, q) == IF q = 0 THEN 0 ELSE (IF q \in DataPos THEN 1 ELSE 0) + Rank(p, q - 1)     \* data positions <= q
PBit(p, i) == (p \div (2^i)) % 2
(* constant tables (TLC evaluates them once) *)
IdxOfPos == [p \in DataPos |-> Rank(p, p)]                               \* 1-based data index of a data position
PosOfIdx == [j \in 1..K |-> CHOOSE p \in DataPos : IdxOfPos[p] = j]
Cover == [i \in 0..(M - 1) |-> {p \in 1..N : PBit(p, i) = 1}]            \* positions covered by check bit i
CheckOf == [p \in Pow2s |-> CHOOSE i \in 0..(M - 1) : 2^i = p]
Par(S) == Cardinality(S) % 2
Syn(w, i) == Par({p \in Cover[i] : w[p] = 1})
Encode(d) ==
    LET w0 == [p \in 1..N |-> IF p \in DataPos THEN d[IdxOfPos[p]] ELSE 0]
        w  == [p \in 1..N |-> IF p \in Pow2s THEN Syn(w0, CheckOf[p]) ELSE w0[p]]
    IN [p \in 0..N |-> IF p = 0 THEN Par({q \in 1..N : w[q] = 1}) ELSE w[p]]
RECURSIVE SynVal(_, _)
SynVal(r, i) == IF i = M THEN 0 ELSE Syn(r, i) * (2^i) + SynVal(r, i + 1)
Decode(r) ==
    LET s   == SynVal(r, 0)
        par == Par({q \in 0..N : r[q] = 1})
        c   == [p \in 1..N |-> IF p = s THEN 1 - r[p] ELSE r[p]]
    IN [d   |-> [j \in 1..K |-> c[PosOfIdx[j]]],
        sec |-> IF NoParityCheck THEN s # 0 ELSE (s # 0 /\ par = 1),
        ded |-> IF NoParityCheck THEN FALSE ELSE (s # 0 /\ par = 0)]
Flip(w, F) == [p \in 0..N |-> IF p \in F THEN 1 - w[p] ELSE w[p]]
FSeq(F) == IF F = {} THEN <<>> ELSE
           LET a == CHOOSE x \in F : \A y \in F : x <= y IN
           IF Cardinality(F) = 1 THEN <<a>> ELSE <<a, CHOOSE y \in F : y # a>>

VARIABLES d, F, out
vars == <<d, F, out>>
Init == /\ d \in [1..K -> {0, 1}]
        /\ F \in {{}} \cup Singles(N + 1) \cup Pairs(N + 1, 0, N - 1)
        /\ out = Decode(Flip(Encode(d), F))
Next == UNCHANGED vars
Rec == [c |-> "RD", wd |-> <<d>>, rd |-> <<out.d>>, F |-> <<FSeq(F)>>,
        s0 |-> 0, s1 |-> IF out.sec THEN 1 ELSE 0, d0 |-> 0, d1 |-> IF out.ded THEN 1 ELSE 0,
        sf0 |-> 0, sf1 |-> IF out.sec THEN 1 ELSE 0, df0 |-> 0, df1 |-> IF out.ded THEN 1 ELSE 0]
Sound == RdJudge(Rec) = {}
OnlyParityUncounted == Uncounted(Rec) \subseteq {<<0, 0>>}          \* a single flip goes uncounted only on stored bit 0
ASSUME CodeBitsOk == CodeBits(K) = N + 1
====
