CONSTANTS K = 11
          NoParityCheck = FALSE
INIT Init
NEXT Next
INVARIANTS Sound OnlyParityUncounted CodeBitsOk
CHECK_DEADLOCK FALSE
