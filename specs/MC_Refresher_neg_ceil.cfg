SPECIFICATION MSpec
CONSTANTS tREFI = 15
 N = 2
 tRP = 2
 tRFC = 3
 WithZq = FALSE
 tZQCS = 2
 ZqPeriod = 47
 DMax = 4
 ZqLatch = TRUE
 TimerCycles = 16
INVARIANT Legal
VIEW View
CHECK_DEADLOCK FALSE
