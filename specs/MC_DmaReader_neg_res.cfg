\* generated from harness/props/streamgen.py (the check passes the same text to TLC)
SPECIFICATION Spec
CONSTANTS
 Depths = {2}
 Buffereds = {FALSE}
 Lmins = {1}
 Addrs = {0, 1}
 Bug = "res_released_on_fill"
INVARIANT Holds
INVARIANT TypeOK
VIEW View
CHECK_DEADLOCK TRUE
