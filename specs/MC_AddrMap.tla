---- MODULE MC_AddrMap ----
(* TLC checks the C06 theorems for every geometry in Geoms (one "state" per geometry). *)
EXTENDS R_AddrMap, TLC
CONSTANTS MaxRowBits, BankBits, ColBits, Aligns
Geoms == { g \in [bankbits : BankBits, rowbits : 1..MaxRowBits, colbits : ColBits, align : Aligns, rankbits : 0..1, bbaexp : 0..12] :
             /\ g.bbaexp \in {0} \cup ((g.colbits - g.align)..(g.colbits - g.align + g.rowbits))      \* none, one row .. the whole bank
             /\ g.colbits - g.align + (IF g.bbaexp > g.colbits - g.align THEN g.bbaexp - (g.colbits - g.align) ELSE 0) <= g.colbits - g.align + g.rowbits }
G(x) == [bankbits |-> x.bankbits, rowbits |-> x.rowbits, colbits |-> x.colbits, align |-> x.align,
         rankbits |-> x.rankbits, bbawords |-> IF x.bbaexp = 0 THEN 0 ELSE Pow2(x.bbaexp)]
VARIABLE g
Init == g \in Geoms
Next == UNCHANGED g
Thm == LET gg == G(g) IN Injective(gg) /\ InRange(gg) /\ Onto(gg) /\ WalkOrder(gg)
====
