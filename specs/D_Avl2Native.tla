---- MODULE D_Avl2Native ----
(* Design model of LiteDRAMAvalonMM2Native (frontend/avalon.py) for equal bus / port widths (no converter):
   START / SINGLE_WRITE / SINGLE_READ / BURST_WRITE / BURST_READ FSM, the latched address / burst counters /
   byteenable / writedata, cmd_ready_seen / cmd_ready_count, and the two SyncFIFOs (cmd_fifo, wdata_fifo, depth MB).
   One ANext per clock edge; AComb gives the combinational outputs of the same cycle; names follow the code.
   The Avalon word is ONE byte (byteenable = one bit); base address 0; burst_increment 1; 9-bit counters wrap.
   Inputs  i = [rd, wr, a, bc, be, d, cmd_ready, wdata_ready, rdata_valid, rdata].
   Outputs o = [wait, rdv, q, cv, cwe, ca, clast, wv, wd, ww, rr].
   VAR = "code" models the code as read; VAR = "gapfix" models the proposed repair (/verif/.work/C11_fix.diff: a write burst
   ends once all its beats were accepted and both FIFOs are empty; port.cmd.valid is no longer gated by the data FIFO level;
   the last command of a read burst carries cmd.last); other values seed defects for the negative controls. *)
EXTENDS Integers, Sequences, FiniteSets

AInit == [fsm |-> "START", burst_count |-> 0, address |-> 0, byteenable |-> 0, writedata |-> 0,
          seen |-> 0, crc |-> 0, cf |-> <<>>, wf |-> <<>>]
AvZ == [wait |-> 1, rdv |-> 0, q |-> 0, cv |-> 0, cwe |-> 0, ca |-> 0, clast |-> 0, wv |-> 0, wd |-> 0, ww |-> 0, rr |-> 0]
AvDec(x) == (x + 511) % 512

AvInBurst(r, i) == i.wr = 1 /\ r.burst_count > 0
AvSpace(MB, r, VAR) == Len(r.cf) < MB /\ (Len(r.wf) < MB \/ VAR = "ignore_wdata_full")
AvWait(MB, r, i, VAR) == IF AvInBurst(r, i) THEN (IF AvSpace(MB, r, VAR) THEN 0 ELSE 1) ELSE 1
AvPush(MB, r, i, VAR) == i.wr = 1 /\ AvWait(MB, r, i, VAR) = 0

AComb(MB, r, i, VAR) ==
  CASE r.fsm = "START" ->
         IF i.rd = 1 \/ i.wr = 1 THEN
            IF i.bc > 1 THEN [AvZ EXCEPT !.wait = IF i.rd = 1 THEN 0 ELSE 1]
            ELSE [AvZ EXCEPT !.cv = 1, !.cwe = i.wr, !.ca = i.a, !.clast = 1, !.wait = IF i.cmd_ready = 1 THEN 0 ELSE 1]
         ELSE AvZ
    [] r.fsm = "SINGLE_WRITE" -> [AvZ EXCEPT !.wv = 1, !.wd = r.writedata, !.ww = r.byteenable]
    [] r.fsm = "SINGLE_READ" -> IF i.rdata_valid = 1 THEN [AvZ EXCEPT !.rr = 1, !.rdv = 1, !.q = i.rdata] ELSE [AvZ EXCEPT !.rr = 1]
    [] r.fsm = "BURST_WRITE" ->
         LET cvv == IF r.cf # <<>> /\ (r.wf # <<>> \/ VAR = "gapfix") THEN 1 ELSE 0 IN
         [AvZ EXCEPT !.wait = AvWait(MB, r, i, VAR),
                     !.cv = cvv, !.cwe = cvv, !.ca = IF r.cf # <<>> THEN Head(r.cf) ELSE 0,
                     !.wv = IF r.wf # <<>> THEN 1 ELSE 0,
                     !.wd = IF r.wf # <<>> THEN Head(r.wf)[1] ELSE 0, !.ww = IF r.wf # <<>> THEN Head(r.wf)[2] ELSE 0]
    [] r.fsm = "BURST_READ" ->
         [AvZ EXCEPT !.cv = 1 - r.seen, !.cwe = 0, !.ca = r.address, !.rr = 1, !.rdv = i.rdata_valid, !.q = i.rdata,
                     !.clast = IF VAR = "gapfix" /\ r.crc = 1 THEN 1 ELSE 0]

ANext(MB, r, i, VAR) ==
  CASE r.fsm = "START" ->
         LET r0 == [r EXCEPT !.seen = 0] IN
         IF i.rd = 1 \/ i.wr = 1 THEN
            LET r1 == [r0 EXCEPT !.byteenable = i.be, !.writedata = i.d, !.burst_count = i.bc, !.address = i.a] IN
            IF i.bc > 1 THEN
               IF i.rd = 1 THEN [r1 EXCEPT !.crc = i.bc, !.fsm = "BURST_READ"]
               ELSE [r1 EXCEPT !.fsm = "BURST_WRITE"]
            ELSE IF i.cmd_ready = 1 THEN [r1 EXCEPT !.fsm = IF i.wr = 1 THEN "SINGLE_WRITE" ELSE "SINGLE_READ"]
            ELSE r1
         ELSE r0
    [] r.fsm = "SINGLE_WRITE" -> IF i.wdata_ready = 1 THEN [r EXCEPT !.fsm = "START"] ELSE r
    [] r.fsm = "SINGLE_READ" -> IF i.rdata_valid = 1 THEN [r EXCEPT !.fsm = "START"] ELSE r
    [] r.fsm = "BURST_WRITE" ->
         LET push == AvPush(MB, r, i, VAR)
             popc == r.cf # <<>> /\ i.cmd_ready = 1                   \* cmd_fifo.source.ready = port.cmd.ready
             popw == r.wf # <<>> /\ i.wdata_ready = 1
             cf1 == (IF popc THEN Tail(r.cf) ELSE r.cf) \o (IF push THEN <<r.address>> ELSE <<>>)
             wf1 == (IF popw THEN Tail(r.wf) ELSE r.wf) \o (IF push /\ Len(r.wf) < MB THEN <<<<i.d, i.be>>>> ELSE <<>>)
             done == IF VAR = "gapfix" THEN ~AvInBurst(r, i) /\ r.burst_count = 0 /\ Len(r.cf) = 0 /\ Len(r.wf) = 0
                     ELSE ~AvInBurst(r, i) /\ Len(r.cf) = 0 /\ Len(r.wf) = 1 /\ i.wdata_ready = 1
         IN [r EXCEPT !.cf = cf1, !.wf = wf1,
                      !.burst_count = IF AvInBurst(r, i) /\ push THEN r.burst_count - 1 ELSE r.burst_count,
                      !.address = IF AvInBurst(r, i) /\ push /\ VAR # "no_increment" THEN r.address + 1 ELSE r.address,
                      !.fsm = IF done THEN "START" ELSE "BURST_WRITE"]
    [] r.fsm = "BURST_READ" ->
         LET r1 == IF i.cmd_ready = 1
                   THEN [r EXCEPT !.seen = IF r.crc = 1 THEN 1 ELSE r.seen, !.crc = AvDec(r.crc), !.address = r.address + 1]
                   ELSE r
             endc == IF VAR = "burst_end_early" THEN 2 ELSE 1 IN
         IF i.rdata_valid = 1
         THEN [r1 EXCEPT !.burst_count = AvDec(r.burst_count), !.fsm = IF r.burst_count = endc THEN "START" ELSE "BURST_READ"]
         ELSE r1
====
