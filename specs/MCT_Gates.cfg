SPECIFICATION TSpec
CONSTANTS Ts <- HTs
 Fs <- HFs
INVARIANT AtEnd
CHECK_DEADLOCK FALSE
