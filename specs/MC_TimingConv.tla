---- MODULE MC_TimingConv ----
(* Lemma check for R_TimingConv: the two-limb arithmetic the trace validator evaluates equals the BigNat reference
   definition, on a structured + pseudo-random sample of the admissible range (ps < 2*10^7, F = fkhz*n < 10^7), and the
   closed forms MinCyclesNs / HaveTck are mutually consistent (c = MinCyclesNs is the least c with CoversNs).
   Bug = TRUE is the negative control: a two-limb formula that drops the middle-limb remainder must be caught. *)
EXTENDS R_TimingConv, TLC
CONSTANTS Bug, Rounds

BuggyMulDiv(ps, F) ==
    LET p1 == ps \div 10000   p0 == ps % 10000
        f1 == F \div 10000    f0 == F % 10000
        A == p1 * f1          M == p1 * f0 + p0 * f1          C == p0 * f0
        R == (A % 10) * 100000000 + C
    IN [q |-> A \div 10 + M \div 100000 + R \div 1000000000, r |-> R % 1000000000]
MD(ps, F) == IF Bug THEN BuggyMulDiv(ps, F) ELSE MulDiv1e9(ps, F)
Ceil2(ps, F) == LET m == MD(ps, F) IN m.q + (IF m.r > 0 THEN 1 ELSE 0)
Floor2(ps, F) == MD(ps, F).q

VARIABLES rr, xx
Lcg(v) == ((v * 1103) + 12345) % 1000003
PsEdges == {0, 1, 999, 1000, 9999, 10000, 10001, 13125, 13750, 13910, 35000, 99999, 100000, 127500, 350000, 999999, 1000000,
            1953125, 3906250, 7812500, 15625000, 19999999}
FEdges == {1, 9999, 10000, 10001, 25000, 99999, 100000, 133333, 166667, 400000, 999999, 1000000, 1600000, 3200000, 9999999}
\* pseudo-random points derived from the state variable x
PsOf(v) == (v * 19) % 20000000
FOf(v) == ((v * 9) % 10000000) + 1
Pts(v) == {<<PsOf(v), FOf(Lcg(v))>>, <<PsOf(Lcg(v)), FOf(v)>>} \cup {<<p, FOf(v)>> : p \in PsEdges} \cup {<<PsOf(v), f>> : f \in FEdges}

Agree(ps, F) == /\ Ceil2(ps, F) = CeilCycles(ps, F)
                /\ Floor2(ps, F) = FloorCyclesN(1, ps, F)
\* least-c characterisation for every rate
Least(ps, F0) == \A n \in {1, 2, 4, 8} :
                   LET f == F0 \div 8 + 1
                       c == MinCyclesNs(ps, f, n)
                   IN (ps = 0 \/ (CoversNs(c, n, ps, f) /\ ~CoversNs(c - 1, n, ps, f)))

\* Eval (single evaluation of the needed clocks) returns exactly ConvBad, for handed values around the minimum
EvalAgrees(ps, F0) ==
    \A n \in {1, 2, 4} : \A dc \in {-1, 0, 1} :
      LET f == F0 \div 8 + 1
          c == MinCyclesNs(ps, f, n) + dc
          ds == [i \in 1..NMin |-> IF i = 1 THEN <<3000, ps, 1>> ELSE IF i = 9 THEN <<0, 35000, 1>> ELSE IF i = 4 THEN <<127500, 0, 1>> ELSE <<0, 0, 0>>]
          o == [i \in 1..(NMin + 2) |-> IF i \in {1, 4, 9, NMin + 1} THEN (IF c < 0 THEN 0 ELSE c) ELSE IF i = NMin + 2 THEN RefiMax(7812500, f) + dc ELSE -1]
      IN Eval("", ds, 7812500, o, n, f).bad = ConvBad("", ds, 7812500, o, n, f)

Init == rr = 0 /\ xx = 1
Next == rr < Rounds /\ rr' = rr + 1 /\ xx' = Lcg(xx)
Spec == Init /\ [][Next]_<<rr, xx>>
Lemma == \A pt \in (IF rr = 0 THEN PsEdges \X FEdges ELSE Pts(xx)) : Agree(pt[1], pt[2]) /\ Least(pt[1], pt[2]) /\ EvalAgrees(pt[1], pt[2])
====
