---- MODULE R_Bist ----
(* Requirement (C14): BIST generator / checker, as a TOTAL monitor over the traffic on the generator's and the checker's
   memory port plus the values of done / errors.  Written from the property statement and the documented behaviour
   (docstrings of frontend/bist.py: base / end / length are DRAM byte addresses resp. a byte count, the range size
   must be a power of two; data is "incremental counter" or "PRBS31", replicated to the port width):

     position i (0-based) of a run carries the data word  Word(i):
         sequential data : the 31-bit counter value i,
         random data     : PRBS31 = x^31 + x^28 + 1 (taps 27 and 30 of a 31-bit register, inverted feedback, register
                           starts at 0, 31 shifts per word, newest bit in bit 0), value after i+1 words,
       the 31-bit value being repeated to fill the port width (bit j of the word = bit (j mod 31) of the value);
     generator  G1  every write lies inside [base, end)                      (byte addresses, whole word inside)
                G2  it finishes, having written exactly length / bytes-per-word words, all data taken
                G3  the i-th write carries Word(i)
                G4  with sequential addresses the i-th write goes to base + (i mod range-in-words) words
     checker    C1  its i-th read goes to the address the generator wrote at position i (same settings)
                C2  it finishes after exactly length / bytes-per-word reads
                E1  errors = number of positions whose returned word differs from Word(i)
                E2  errors = number of positions at which the word now stored at the position's address differs from
                    the word the generator wrote there  (=> 0 over a faithful memory when no address repeats;
                    => k when k written locations were corrupted)
   Random ADDRESS sequences are not pinned to a formula: only G1 and C1 speak about them.
   The memory contents are tracked from the observed writes and the CORRUPT events of the harness; what the memory
   returns is checked against that model as an environment condition (envbad), it is not a verdict.

   Events (u = "g" generator port, "c" checker port; ab = byte address; d = bytes, LSB first):
     NEW(set)            start of a session, set = [bpw, base, end, length, rd, ra]
     GSTART / GDONE(ok)  generator run; ok = FALSE when done was not seen within the harness' generous bound
     CSTART / CDONE(ok, errors)
     CMD(u, we, ab)  WDATA(u, d)  RDATA(u, d)   port traffic, in the order it happened
     CORRUPT(ab, d)      the harness overwrites the stored word
     LOST(what)          a strobe of the pulse-semantics memory found no data / no taker *)
EXTENDS Integers, Sequences, FiniteSets, TLC

BBit(v, k) == (v \div (2^k)) % 2
LfsrStep(s) == ((s % (2^30)) * 2) + (1 - ((BBit(s, 27) + BBit(s, 30)) % 2))
RECURSIVE LfsrN(_, _)
LfsrN(s, n) == IF n = 0 THEN s ELSE LfsrN(LfsrStep(s), n - 1)
PrbsNext(v) == LfsrN(v, 31)
FirstVal(rnd) == IF rnd = 1 THEN PrbsNext(0) ELSE 0
NextVal(rnd, v) == IF rnd = 1 THEN PrbsNext(v) ELSE (IF v = 2147483647 THEN 0 ELSE v + 1)
WordBytes(v, nb) == [b \in 1..nb |->
      BBit(v, (8 * (b - 1)) % 31)           + 2 * BBit(v, (8 * (b - 1) + 1) % 31)
    + 4 * BBit(v, (8 * (b - 1) + 2) % 31)   + 8 * BBit(v, (8 * (b - 1) + 3) % 31)
    + 16 * BBit(v, (8 * (b - 1) + 4) % 31)  + 32 * BBit(v, (8 * (b - 1) + 5) % 31)
    + 64 * BBit(v, (8 * (b - 1) + 6) % 31)  + 128 * BBit(v, (8 * (b - 1) + 7) % 31)]

IsPow2(n) == \E k \in 0..30 : n = 2^k
(* what the property grants about the settings (environment assumption, checked on every NEW event) *)
LegalSetting(s) ==
    /\ s.bpw \in {1, 2, 4, 8, 16, 32, 64}
    /\ s.base >= 0 /\ s.base % s.bpw = 0
    /\ s.end > s.base /\ IsPow2(s.end - s.base) /\ (s.end - s.base) >= s.bpw
    /\ s.length >= s.bpw /\ s.length % s.bpw = 0
    /\ s.rd \in {0, 1} /\ s.ra \in {0, 1}
NWords(s) == s.length \div s.bpw
RangeWords(s) == (s.end - s.base) \div s.bpw

BInit == [set |-> [bpw |-> 1, base |-> 0, end |-> 1, length |-> 1, rd |-> 0, ra |-> 0],
          ph |-> "idle",                      \* idle | gen | chk
          q |-> <<>>,                         \* checker: byte addresses of read commands whose data beat is still to come
          gq |-> <<>>,                        \* generator: byte addresses of write commands whose data beat is still to come
          n |-> 0,                            \* commands seen in this run
          nd |-> 0,                           \* data beats seen in this run
          val |-> 0,                          \* 31-bit value of the next data position
          gpos |-> <<>>,                      \* generator positions: <<byte address, bytes>>
          gran |-> FALSE,                     \* a generator run completed in this session
          mem |-> <<>>,                       \* byte address -> bytes (known contents)
          mism |-> 0,                         \* returned word # Word(i)
          c1ok |-> TRUE,
          stats |-> [runs |-> 0, clean0 |-> 0, corrupted |-> 0, repeats |-> 0, maxerr |-> 0]]

BPut(f, k, v) == [x \in (DOMAIN f) \cup {k} |-> IF x = k THEN v ELSE f[x]]
Distinct(gpos) == Cardinality({gpos[i][1] : i \in 1..Len(gpos)}) = Len(gpos)
StoredDiff(s) == Cardinality({i \in 1..Len(s.gpos) : s.mem[s.gpos[i][1]] # s.gpos[i][2]})

BistStep(s, e) ==      \* -> [s, bad, envbad]
  LET set == s.set  bpw == set.bpw
      none == [s |-> s, bad |-> {}, envbad |-> {}]
  IN
  CASE e.c = "NEW" ->
        [s |-> [BInit EXCEPT !.set = e.set, !.stats = s.stats], bad |-> {},
         envbad |-> IF LegalSetting(e.set) THEN {} ELSE {<<"settings outside the property's assumptions", e.set>>}]
    [] e.c = "GSTART" ->
        [s |-> [s EXCEPT !.ph = "gen", !.gq = <<>>, !.n = 0, !.nd = 0, !.val = FirstVal(set.rd), !.gpos = <<>>, !.gran = FALSE],
         bad |-> {}, envbad |-> {}]
    [] e.c = "CSTART" ->
        [s |-> [s EXCEPT !.ph = "chk", !.q = <<>>, !.n = 0, !.nd = 0, !.val = FirstVal(set.rd), !.mism = 0, !.c1ok = TRUE],
         bad |-> {}, envbad |-> {}]
    [] e.c = "CMD" ->
        IF s.ph = "gen" /\ e.u = "g" /\ e.we THEN
            [s |-> [s EXCEPT !.gq = Append(@, e.ab), !.n = @ + 1],
             bad |-> (IF e.ab >= set.base /\ e.ab + bpw <= set.end THEN {}
                      ELSE {<<"generator write outside [base, end)", e.ab, set.base, set.end>>})
                     \cup (IF set.ra = 0 /\ e.ab # set.base + (s.n % RangeWords(set)) * bpw
                           THEN {<<"sequential generator address is not base + (i mod range)", s.n, e.ab, set.base + (s.n % RangeWords(set)) * bpw>>} ELSE {})
                     \cup (IF s.n = NWords(set) THEN {<<"generator writes more words than length", s.n + 1, NWords(set)>>} ELSE {}),
             envbad |-> {}]
        ELSE IF s.ph = "chk" /\ e.u = "c" /\ ~e.we THEN
            LET bad1 == IF s.gran /\ s.n < Len(s.gpos) /\ e.ab # s.gpos[s.n + 1][1]
                        THEN {<<"checker reads a different address than the generator wrote at this position", s.n, e.ab, s.gpos[s.n + 1][1]>>} ELSE {}
            IN [s |-> [s EXCEPT !.q = Append(@, e.ab), !.n = @ + 1, !.c1ok = @ /\ bad1 = {}],
                bad |-> bad1 \cup (IF s.n = NWords(set) THEN {<<"checker reads more words than length", s.n + 1, NWords(set)>>} ELSE {}),
                envbad |-> {}]
        ELSE [s |-> s, bad |-> {<<"unexpected command on a BIST port", s.ph, e.u, e.we, e.ab>>}, envbad |-> {}]
    [] e.c = "WDATA" ->
        IF e.u = "g" /\ s.gq # <<>> THEN
            LET a == Head(s.gq)  w == WordBytes(s.val, bpw) IN
            IF s.ph = "gen" THEN
                [s |-> [s EXCEPT !.gq = Tail(@), !.nd = @ + 1, !.val = NextVal(set.rd, @),
                                 !.gpos = Append(@, <<a, e.d>>), !.mem = BPut(@, a, e.d)],
                 bad |-> IF e.d = w THEN {} ELSE {<<"generator data word differs from the documented sequence", s.nd, e.d, w>>},
                 envbad |-> {}]
            ELSE    \* a write completing after done was reported: the memory does change, and the run was not finished
                [s |-> [s EXCEPT !.gq = Tail(@), !.mem = BPut(@, a, e.d)],
                 bad |-> {<<"write data taken after the generator reported done", a>>}, envbad |-> {}]
        ELSE [s |-> s, bad |-> {<<"unexpected write data on a BIST port", s.ph, e.u>>}, envbad |-> {}]
    [] e.c = "RDATA" ->
        IF s.ph = "chk" /\ e.u = "c" /\ s.q # <<>> THEN
            LET a == Head(s.q)  w == WordBytes(s.val, bpw) IN
            [s |-> [s EXCEPT !.q = Tail(@), !.nd = @ + 1, !.val = NextVal(set.rd, @),
                             !.mism = @ + (IF e.d = w THEN 0 ELSE 1)],
             bad |-> {},
             envbad |-> IF a \in DOMAIN s.mem /\ s.mem[a] # e.d THEN {<<"memory returned a word it does not hold", a, e.d, s.mem[a]>>} ELSE {}]
        ELSE [s |-> s, bad |-> {<<"unexpected read data on a BIST port", s.ph, e.u>>}, envbad |-> {}]
    [] e.c = "GDONE" ->
        [s |-> [s EXCEPT !.ph = "idle", !.gran = e.ok,
                         !.stats.repeats = @ + (IF Distinct(s.gpos) THEN 0 ELSE 1)],
         bad |-> (IF ~e.ok THEN {<<"generator did not finish", s.n, s.nd>>} ELSE
                  (IF s.n # NWords(set) \/ s.nd # NWords(set) \/ s.gq # <<>>
                   THEN {<<"generator finished without having written length / bytes-per-word words", s.n, s.nd, NWords(set)>>} ELSE {})),
         envbad |-> IF s.ph = "gen" THEN {} ELSE {<<"GDONE outside a generator run">>}]
    [] e.c = "CDONE" ->
        LET e2able == s.gran /\ s.c1ok /\ s.n = Len(s.gpos)
            exp2 == StoredDiff(s)
        IN
        [s |-> [s EXCEPT !.ph = "idle",
                         !.stats.runs = @ + 1,
                         !.stats.clean0 = @ + (IF e.ok /\ e2able /\ exp2 = 0 /\ Distinct(s.gpos) THEN 1 ELSE 0),
                         !.stats.corrupted = @ + (IF e.ok /\ e2able /\ exp2 > 0 THEN 1 ELSE 0),
                         !.stats.maxerr = IF e.ok /\ e.errors > @ THEN e.errors ELSE @],
         bad |-> (IF ~e.ok THEN {<<"checker did not finish", s.n, s.nd>>} ELSE
                  (IF s.n # NWords(set) \/ s.nd # NWords(set) \/ s.q # <<>>
                     THEN {<<"checker finished without having read length / bytes-per-word words", s.n, s.nd, NWords(set)>>} ELSE {})
                  \cup (IF e.errors # s.mism
                     THEN {<<"errors is not the number of positions whose stored word differs from the generated word", e.errors, s.mism>>} ELSE {})
                  \cup (IF e2able /\ e.errors # exp2
                     THEN {<<"errors is not the number of written locations that no longer hold what the generator wrote", e.errors, exp2>>} ELSE {})),
         envbad |-> IF s.ph = "chk" THEN {} ELSE {<<"CDONE outside a checker run">>}]
    [] e.c = "CORRUPT" ->
        [s |-> [s EXCEPT !.mem = BPut(@, e.ab, e.d)], bad |-> {},
         envbad |-> IF s.ph = "idle" THEN {} ELSE {<<"memory corrupted during a run">>}]
    [] e.c = "LOST" ->
        [s |-> s, bad |-> {<<"port data lost (strobe of the memory found no data / no taker)", e.what>>}, envbad |-> {}]
    [] e.c = "END" -> none
    [] OTHER -> [s |-> s, bad |-> {}, envbad |-> {<<"unknown event", e.c>>}]
====
