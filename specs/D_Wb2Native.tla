---- MODULE D_Wb2Native ----
(* Design model of the NARROW-bus path of LiteDRAMWishbone2Native (frontend/wishbone.py: _init_burst_upconverter):
   write merge buffer (wr_valid/addr/data/we/sel/last, wr_can_merge, wr_flush), one-word read cache (rd_cache_valid, rd_cache_addr, rd_cache_data) and its
   invalidation, CMD / WRITE_CMD / WRITE_DATA / READ_CMD / READ_DATA FSM with the aborted flag.
   One BNext per clock edge; BComb gives the combinational outputs of the same cycle.  Register and state names follow
   the code.  The Wishbone word is ONE byte wide (sel = one bit), the native word has R lanes; base address 0.
   Inputs  i = [cyc, stb, we, a, sel, d, last (cti # 2), cmd_ready, wdata_ready, rdata_valid, rdata (R lanes)].
   Outputs o = [ack, dat_r, cv, cwe, ca, clast (port.cmd), wv, wd, ww (port.wdata), rr (port.rdata.ready)].
   BUG selects a seeded defect for the negative controls ("none" = the code as read): "stale_cache" (a write does not
   invalidate the read cache), "ignore_aborted", "cache_hit_lane" (a cache hit returns the lane of the read that filled
   the cache), "ack_without_merge" (a write that cannot be merged is acknowledged anyway, i.e. lost).
   "inval_on_flush_only" (seeded/C10-c: the cache is invalidated only by a write that flushes), "merge_occupied",
   "read_bypasses_pending_write".  CTI is a hint: the master may follow a CTI=010 beat by anything. *)
EXTENDS Integers, Sequences, FiniteSets

RECURSIVE DwOr(_, _, _)
DwOr(x, y, n) == IF n = 0 THEN 0
                 ELSE (IF x % 2 = 1 \/ y % 2 = 1 THEN 1 ELSE 0) + 2 * DwOr(x \div 2, y \div 2, n - 1)
DwMod(x, y) == x % y
DwZero(R) == [k \in 1..R |-> 0]

BInit(R) == [fsm |-> "CMD", aborted |-> 0,
             wr_valid |-> 0, wr_addr |-> 0, wr_data |-> DwZero(R), wr_we |-> DwZero(R), wr_sel |-> DwZero(R), wr_last |-> 0,
             rc_valid |-> 0, rc_addr |-> 0, rc_data |-> DwZero(R), rd_addr |-> 0, rd_chunk |-> 0, rd_last |-> 0]

DwWide(R, i) == i.a \div R
DwChunk(R, i) == i.a % R
DwCanMerge(R, r, i, BUG) == r.wr_valid = 0 \/ (r.wr_addr = DwWide(R, i) /\ (BUG = "merge_occupied" \/ r.wr_sel[DwChunk(R, i) + 1] = 0))
DwNextSel(R, r, i) == [r.wr_sel EXCEPT ![DwChunk(R, i) + 1] = 1]
DwFlush(R, r, i, BUG) == i.last = 1 \/ (\A k \in 1..R : DwNextSel(R, r, i)[k] = 1)
DwHit(R, r, i) == r.rc_valid = 1 /\ r.rc_addr = DwWide(R, i)

DwNoOut(R) == [ack |-> 0, dat_r |-> 0, cv |-> 0, cwe |-> 0, ca |-> 0, clast |-> 0, wv |-> 0, wd |-> DwZero(R), ww |-> DwZero(R), rr |-> 0]

BComb(R, r, i, BUG) ==
  LET z == DwNoOut(R) IN
  CASE r.fsm = "CMD" ->
         IF i.cyc = 1 /\ i.stb = 1 THEN
            IF i.we = 1 THEN [z EXCEPT !.ack = IF DwCanMerge(R, r, i, BUG) \/ BUG = "ack_without_merge" THEN 1 ELSE 0]
            ELSE IF r.wr_valid = 0 /\ DwHit(R, r, i)
                 THEN [z EXCEPT !.ack = 1, !.dat_r = r.rc_data[(IF BUG = "cache_hit_lane" THEN r.rd_chunk ELSE DwChunk(R, i)) + 1]]
            ELSE z
         ELSE z
    [] r.fsm = "WRITE_CMD" ->
         IF r.wr_valid = 1 THEN [z EXCEPT !.cv = 1, !.cwe = 1, !.ca = r.wr_addr, !.clast = r.wr_last] ELSE z
    [] r.fsm = "WRITE_DATA" -> [z EXCEPT !.wv = 1, !.wd = r.wr_data, !.ww = r.wr_we]
    [] r.fsm = "READ_CMD" ->
         IF i.cyc = 0 THEN z ELSE [z EXCEPT !.cv = 1, !.cwe = 0, !.ca = r.rd_addr, !.clast = r.rd_last]
    [] r.fsm = "READ_DATA" ->
         IF i.rdata_valid = 1 /\ i.cyc = 1 /\ (r.aborted = 0 \/ BUG = "ignore_aborted")
         THEN [z EXCEPT !.rr = 1, !.ack = 1, !.dat_r = i.rdata[r.rd_chunk + 1]]
         ELSE [z EXCEPT !.rr = 1]

BNext(R, r, i, BUG) ==
  LET c == DwChunk(R, i) + 1 IN
  CASE r.fsm = "CMD" ->
         LET r0 == [r EXCEPT !.aborted = 0] IN
         IF i.cyc = 0 THEN
            LET r1 == [r0 EXCEPT !.rc_valid = 0] IN
            IF r.wr_valid = 1 THEN [r1 EXCEPT !.wr_last = 1, !.fsm = "WRITE_CMD"] ELSE r1
         ELSE IF i.stb = 1 THEN
            IF i.we = 1 THEN
               LET r1 == IF BUG = "stale_cache" \/ (BUG = "inval_on_flush_only" /\ ~(DwCanMerge(R, r, i, BUG) /\ DwFlush(R, r, i, BUG)))
                         THEN r0 ELSE [r0 EXCEPT !.rc_valid = 0] IN
               IF DwCanMerge(R, r, i, BUG) THEN
                  [r1 EXCEPT !.wr_valid = 1,
                             !.wr_addr = IF r.wr_valid = 1 THEN r.wr_addr ELSE DwWide(R, i),
                             !.wr_data = IF r.wr_valid = 1 THEN [r.wr_data EXCEPT ![c] = DwOr(@, i.d, 8)]
                                         ELSE [DwZero(R) EXCEPT ![c] = i.d],
                             !.wr_we   = IF r.wr_valid = 1 THEN [r.wr_we EXCEPT ![c] = DwOr(@, i.sel, 1)]
                                         ELSE [DwZero(R) EXCEPT ![c] = i.sel],
                             !.wr_sel  = DwNextSel(R, r, i),
                             !.wr_last = i.last,
                             !.fsm = IF DwFlush(R, r, i, BUG) THEN "WRITE_CMD" ELSE "CMD"]
               ELSE [r1 EXCEPT !.wr_last = 1, !.fsm = "WRITE_CMD"]
            ELSE IF r.wr_valid = 1 /\ BUG # "read_bypasses_pending_write" THEN [r0 EXCEPT !.wr_last = 1, !.fsm = "WRITE_CMD"]
            ELSE IF DwHit(R, r, i) THEN (IF i.last = 1 THEN [r0 EXCEPT !.rc_valid = 0] ELSE r0)
            ELSE [r0 EXCEPT !.rd_addr = DwWide(R, i), !.rd_chunk = DwChunk(R, i), !.rd_last = i.last, !.fsm = "READ_CMD"]
         ELSE r0
    [] r.fsm = "WRITE_CMD" ->
         IF r.wr_valid = 1 THEN (IF i.cmd_ready = 1 THEN [r EXCEPT !.fsm = "WRITE_DATA"] ELSE r)
         ELSE [r EXCEPT !.fsm = "CMD"]
    [] r.fsm = "WRITE_DATA" ->
         IF i.wdata_ready = 1
         THEN [r EXCEPT !.wr_valid = 0, !.wr_data = DwZero(R), !.wr_we = DwZero(R), !.wr_sel = DwZero(R), !.fsm = "CMD"]
         ELSE r
    [] r.fsm = "READ_CMD" ->
         IF i.cyc = 0 THEN [r EXCEPT !.fsm = "CMD"]
         ELSE IF i.cmd_ready = 1 THEN [r EXCEPT !.fsm = "READ_DATA"] ELSE r
    [] r.fsm = "READ_DATA" ->
         LET r0 == [r EXCEPT !.aborted = IF i.cyc = 0 \/ r.aborted = 1 THEN 1 ELSE 0] IN
         IF i.rdata_valid = 1 THEN
            [r0 EXCEPT !.rc_data = i.rdata, !.rc_addr = r.rd_addr,
                       !.rc_valid = IF i.cyc = 1 /\ r.aborted = 0 THEN 1 - r.rd_last ELSE 0,
                       !.fsm = "CMD"]
         ELSE r0
====
