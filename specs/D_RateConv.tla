---- MODULE D_RateConv ----
(* Design-level model of DFIRateConverter: per signal a Serializer (slow word registered on the slow clock, sliced by a
   counter of the fast clock) and for read data a Deserializer (slot register filled on the fast clock, two-stage hand-over on
   the slow clock), wired with the phase interleaving of the converter ("phases first, then clock cycles" for commands;
   whole bursts for data, write_delay / read_delay windows).  One action = one rising edge of the FAST clock; every
   ratio-th fast edge coincides with a slow edge (phase-aligned clocks), where every register samples pre-edge values.
   Values are abstract (small domains): the converter only routes bits, so small domains cover all routing faults.
   State record d (P fast phases, r = ratio):
     cnt      serializer / deserializer counters (all equal; reset r-1 so that the first edge makes them 0)
     cmd_id   registered slow command vector, one value per slow phase (1 .. P*r)       [Serializer.i_d of every non-data signal]
     wr_id    per fast phase a sequence of r slots, each a burst (sequence of r chunks)  [Serializer.i_d of wrdata]
     opre, opred, o   per fast phase r slots of [d |-> burst, v |-> valid]              [Deserializer o_pre, o_pre_d, o]
     sin      slow-side inputs of the current slow cycle: [cmd |-> seq over slow phases, wr |-> seq over slow phases of chunks]
     fin      fast-side inputs of the current fast cycle: per fast phase [d |-> burst, v |-> valid]
   bug: seeded defects for negative controls. *)
EXTENDS Integers, Sequences

ZeroBurst(r) == [i \in 1 .. r |-> 0]
DInit(P, r, sin, fin) ==
    [ cnt |-> r - 1,
      cmd_id |-> [k \in 1 .. P * r |-> 0],
      wr_id  |-> [p \in 1 .. P |-> [j \in 1 .. r |-> ZeroBurst(r)]],
      opre   |-> [p \in 1 .. P |-> [j \in 1 .. r |-> [d |-> ZeroBurst(r), v |-> 0]]],
      opred  |-> [p \in 1 .. P |-> [j \in 1 .. r |-> [d |-> ZeroBurst(r), v |-> 0]]],
      o      |-> [p \in 1 .. P |-> [j \in 1 .. r |-> [d |-> ZeroBurst(r), v |-> 0]]],
      sin |-> sin, fin |-> fin ]

(* combinational outputs *)
FastCmd(P, r, bug, d, p) ==
    LET j == IF bug = "ser_order" THEN r - 1 - d.cnt ELSE d.cnt IN d.cmd_id[(p - 1) + P * j + 1]
FastWr(P, r, d, p) == d.wr_id[p][d.cnt + 1]
SlowRd(P, r, rd, bug, d, k) ==            \* slow phase k = (p-1)*r + i
    LET p == ((k - 1) \div r) + 1  i == ((k - 1) % r) + 1
        w == IF bug = "rd_window" THEN ((rd + 1) % r) + 1 ELSE rd + 1
    IN [d |-> d.o[p][w].d[i], v |-> d.o[p][w].v]

(* one fast edge; `aligned` = a slow edge happens at the same instant *)
Aligned(r, d) == d.cnt = r - 1
Edge(P, r, wd, bug, d, newsin, newfin) ==
    LET al == Aligned(r, d)
        ncnt == (d.cnt + 1) % r
        opre1 == [p \in 1 .. P |-> [d.opre[p] EXCEPT ![d.cnt + 1] = d.fin[p]]]          \* slot cnt := fast input of the ending cycle
        window == IF bug = "wd_window" THEN ((wd + 1) % r) + 1 ELSE wd + 1
    IN [ cnt |-> ncnt,
         cmd_id |-> IF al THEN d.sin.cmd ELSE d.cmd_id,
         wr_id  |-> IF al THEN [p \in 1 .. P |-> [j \in 1 .. r |-> IF j = window THEN [i \in 1 .. r |-> d.sin.wr[(p - 1) * r + i]] ELSE ZeroBurst(r)]]
                    ELSE d.wr_id,
         opre   |-> opre1,
         opred  |-> IF al THEN d.opre ELSE d.opred,
         o      |-> IF al THEN [p \in 1 .. P |-> [j \in 1 .. r |-> IF j < r THEN d.opred[p][j] ELSE d.opre[p][r]]] ELSE d.o,
         sin    |-> IF al THEN newsin ELSE d.sin,
         fin    |-> newfin ]
====
