\* generated from harness/props/streamgen.py (the check passes the same text to TLC)
SPECIFICATION Spec
CONSTANTS
 R = 1
 PreDepth = 2
 PostDepth = 2
 DCap = 2
 Fix = FALSE
 Bug = "none"
INVARIANT Holds
INVARIANT TypeOK
VIEW View
CHECK_DEADLOCK TRUE
