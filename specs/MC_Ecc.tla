---- MODULE MC_Ecc ----
EXTENDS D_Ecc
====
