---- MODULE R_Response ----
(* Requirement C05: every offered command is accepted within Bacc and every accepted command gets its write-data
   strobe / read data within Bdat; both are functions of the configuration only (tCK).
   Events (t in tCK of the sys clock: cycle * nphases):
     OFFER(p, t)  first cycle a new command is presented;  CMD(p, we, t) its acceptance;
     WDATA(p, t) / RDATA(p, t) completion of the oldest outstanding write / read of port p;  END(t). *)
EXTENDS Integers, Sequences, FiniteSets, R_AddrMap
\* worst service of one command in its bank, direction budget, refresh block (lref = R_Refresh!LService)
Service(cfg, rq) == rq["tRP"] + rq["tRCD"] + rq["tFAW"] + 8 * cfg.nphases
                    + (IF rq["tRAS"] > rq["tRCD"] + cfg.wl + cfg.blck + rq["tWR"] THEN rq["tRAS"] ELSE rq["tRCD"] + cfg.wl + cfg.blck + rq["tWR"])
Direction(cfg, rq) == (cfg.read_time + cfg.write_time + cfg.read_latency + 8) * cfg.nphases + rq["tWTR"] + cfg.wl + cfg.blck + rq["tCCD"]
Bdat(cfg, rq, lref) == 2 * (cfg.depth + 2) * (Service(cfg, rq) + cfg.nranks * cfg.nbanks * (rq["tCCD"] + cfg.nphases) + Direction(cfg, rq))
                       + 4 * lref + (cfg.read_latency + cfg.write_latency + 4) * cfg.nphases
Bacc(cfg, rq, lref) == (cfg.nports + 1) * Bdat(cfg, rq, lref)

BankOf(cfg, a) == LET d == Decode(cfg.geom, a) IN d.rank * cfg.nbanks + d.bank
InitRsp(cfg) == [off |-> [p \in 0..cfg.nports - 1 |-> 0 - 1],          \* time of the pending offer, -1 = none
                 offb |-> [p \in 0..cfg.nports - 1 |-> 0],              \* bank the pending offer addresses
                 holders |-> [p \in 0..cfg.nports - 1 |-> {}],          \* other ports served by that bank while p waits
                 lasth |-> [p \in 0..cfg.nports - 1 |-> 0 - 1],         \* the port that bank served last while p waits
                 runs |-> [p \in 0..cfg.nports - 1 |-> 0],              \* number of uninterrupted runs of one port on that bank while p waits
                 wq  |-> [p \in 0..cfg.nports - 1 |-> <<>>],           \* accept times of outstanding writes
                 rq  |-> [p \in 0..cfg.nports - 1 |-> <<>>],
                 worstAcc |-> 0, worstDat |-> 0]

RspStep(cfg, bacc, bdat, s, e) ==
  CASE e.c = "OFFER" -> [s |-> [s EXCEPT !.off[e.p] = e.t, !.offb[e.p] = BankOf(cfg, e.a), !.holders[e.p] = {},
                                          !.lasth[e.p] = 0 - 1, !.runs[e.p] = 0], bad |-> {}]
    [] e.c = "CMD" ->
        LET p == e.p  w == IF s.off[p] < 0 THEN 0 ELSE e.t - s.off[p]
            b == BankOf(cfg, e.a)
            waits(q) == q # p /\ s.off[q] >= 0 /\ s.offb[q] = b
            s0 == [s EXCEPT !.holders = [q \in DOMAIN s.holders |-> IF waits(q) THEN s.holders[q] \cup {p} ELSE s.holders[q]],
                            !.runs = [q \in DOMAIN s.runs |-> IF waits(q) /\ s.lasth[q] # p THEN s.runs[q] + 1 ELSE s.runs[q]],
                            !.lasth = [q \in DOMAIN s.lasth |-> IF waits(q) THEN p ELSE s.lasth[q]]]
            s1 == [s0 EXCEPT !.off[p] = 0 - 1, !.worstAcc = IF w > s.worstAcc THEN w ELSE s.worstAcc]
            s2 == IF e.we THEN [s1 EXCEPT !.wq[p] = Append(s.wq[p], e.t)] ELSE [s1 EXCEPT !.rq[p] = Append(s.rq[p], e.t)]
            \* how many OTHER ports the addressed bank served during the wait and in how many uninterrupted runs: runs = ports
            \* means each of them held the bank for one continuous stream (no rotation of the grant among them)
        IN [s |-> s2, bad |-> IF w > bacc THEN {<<"offered command accepted later than Bacc", p, s.off[p], e.t, bacc, Cardinality(s.holders[p]), s.runs[p]>>} ELSE {}]
    [] e.c = "WDATA" ->
        LET p == e.p IN
        IF s.wq[p] = <<>> THEN [s |-> s, bad |-> {}]
        ELSE LET w == e.t - Head(s.wq[p]) IN
             [s |-> [s EXCEPT !.wq[p] = Tail(s.wq[p]), !.worstDat = IF w > s.worstDat THEN w ELSE s.worstDat],
              bad |-> IF w > bdat THEN {<<"write-data strobe later than Bdat", p, Head(s.wq[p]), e.t, bdat>>} ELSE {}]
    [] e.c = "RDATA" ->
        LET p == e.p IN
        IF s.rq[p] = <<>> THEN [s |-> s, bad |-> {}]
        ELSE LET w == e.t - Head(s.rq[p]) IN
             [s |-> [s EXCEPT !.rq[p] = Tail(s.rq[p]), !.worstDat = IF w > s.worstDat THEN w ELSE s.worstDat],
              bad |-> IF w > bdat THEN {<<"read data later than Bdat", p, Head(s.rq[p]), e.t, bdat>>} ELSE {}]
    [] e.c = "END" ->
        [s |-> s,
         bad |-> {<<"offered command never accepted", p, s.off[p], e.t, bacc, Cardinality(s.holders[p]), s.runs[p]>> : p \in {q \in DOMAIN s.off : s.off[q] >= 0 /\ e.t - s.off[q] > bacc}}
                 \cup {<<"accepted write never got its data strobe", p, Head(s.wq[p]), e.t, bdat>> : p \in {q \in DOMAIN s.wq : s.wq[q] # <<>> /\ e.t - Head(s.wq[q]) > bdat}}
                 \cup {<<"accepted read never got its data", p, Head(s.rq[p]), e.t, bdat>> : p \in {q \in DOMAIN s.rq : s.rq[q] # <<>> /\ e.t - Head(s.rq[q]) > bdat}}]
    [] OTHER -> [s |-> s, bad |-> {}]
====
