INIT Init
NEXT Next
CONSTANTS MaxRowBits = 2
 BankBits = {1, 2, 3, 4}
 ColBits = {8, 9, 10, 11, 12}
 Aligns = {0, 1, 2, 3, 4}
INVARIANT Thm
