CONSTANTS MaxNW = 6
          RW = 4
          DEPTH = 3
          LMAX = 4
          Bug = "none"
SPECIFICATION Spec
INVARIANTS Sound NoHang Bounded
CHECK_DEADLOCK FALSE
