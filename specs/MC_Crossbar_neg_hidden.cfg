SPECIFICATION Spec
CONSTANTS M = 2
 B = 2
 Depth = 2
 Hidden = 1
 MaxCmd = 3
 Unbounded = FALSE
INVARIANT Legal
CHECK_DEADLOCK FALSE
