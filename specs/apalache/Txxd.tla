---- MODULE Txxd ----
(* Unbounded argument (Apalache, inductive invariant) for litedram.common.tXXDController: for EVERY period T >= 1 the gate
   never reports ready earlier than T cycles after the last `valid`.  State follows the code: `ready`, `count`; `since` is a
   history variable counting the cycles since the last valid (capped at T: only "at least T" matters).
   The counter's wrap-around from reset (ready = 0, count = 0 before any valid) is outside this argument: the invariant is
   stated for the behaviour after the first valid, which is where a timing requirement exists. *)
EXTENDS Integers
CONSTANT
    \* @type: Int;
    T
VARIABLES
    \* @type: Bool;
    ready,
    \* @type: Int;
    count,
    \* @type: Int;
    since
ConstInit == T \in 1..1000000
Min(a, b) == IF a < b THEN a ELSE b
\* one clock edge with input `valid`
Step(valid) ==
    /\ ready' = IF valid THEN (T - 1 = 0) ELSE IF ~ready THEN (IF count = 1 THEN TRUE ELSE ready) ELSE ready
    /\ count' = IF valid THEN T - 1 ELSE IF ~ready THEN count - 1 ELSE count
    /\ since' = IF valid THEN 1 ELSE Min(since + 1, T)
Next == \E v \in BOOLEAN : Step(v)
\* start right after a valid was sampled
Init == /\ ready = (T - 1 = 0) /\ count = T - 1 /\ since = 1
\* the property: ready implies at least T cycles since the last valid
Safe == ready => since >= T
\* inductive invariant: while not ready the counter holds exactly the remaining cycles
IndInv == /\ since \in 1..T
          /\ count \in 0..T
          /\ (~ready => (count = T - since /\ count >= 1))
          /\ (ready => since >= T)
IndInit == ready \in BOOLEAN /\ count \in 0..1000000 /\ since \in 1..1000000 /\ IndInv
====
