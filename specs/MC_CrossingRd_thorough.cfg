SPECIFICATION Spec
CONSTANTS CmdDepth = 2
 RdDepth = 8
 M = 4
 Bound = 6
INVARIANT NoOverflow
INVARIANT OccBound
INVARIANT OutBound
