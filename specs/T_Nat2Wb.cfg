SPECIFICATION TSpec
INVARIANT AtEnd
CHECK_DEADLOCK FALSE
