SPECIFICATION Spec
CONSTANTS Depth = 4
 MaxPush = 7
 Bug = "stale_read"
INVARIANT ReqOK
