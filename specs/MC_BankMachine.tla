---- MODULE MC_BankMachine ----
(* D_BankMachine composed with (i) an environment that behaves like the multiplexer + refresher (arbitrary cmd.ready;
   a master that holds its request; a refresher that holds refresh_req until granted, then issues precharge-all, waits
   tRP, issues REF, waits tRFC and releases) and (ii) the requirement specification R_DramDevice as an OBSERVER of the
   commands the model issues -- the very same Check/Apply operators that judge traces of the real core.
   Device times are absolute; the VIEW maps them to saturated ages so that the state space is finite. *)
EXTENDS D_BankMachine, Integers, FiniteSets
CONSTANTS tRFC, WL, BLCK, tWRdev      \* device-side numbers (tCK = sys cycles here: one phase)
Dev == INSTANCE R_DramDevice
VARIABLES dev, now, bad, rph        \* device state, time, broken clauses, refresher phase (0 idle, 1 requesting, k>=2: k-2 cycles since PREA)
mvars == <<vars, dev, now, bad, rph>>

E(ck) == [ck |-> ck, ps |-> 0]
DCfg == [nranks |-> 1, nbanks |-> 1, nphases |-> 1, rdphase |-> 0, wrphase |-> 0, wl |-> WL, blck |-> BLCK, fkhz |-> 100000,
         ds |-> [tRCD |-> E(tRCD), tRP |-> E(tRP), tRAS |-> E(tRAS), tRRD |-> E(0), tFAW |-> E(0), tCCD |-> E(0),
                 tWR |-> E(tWRdev), tWTR |-> E(0), tRFC |-> E(tRFC), tZQCS |-> E(0)]]
Rq == Dev!Req(DCfg)

Ev(c, a, ap) == [c |-> c, t |-> now, ph |-> 0, ranks |-> <<0>>, b |-> 0, a |-> a, ap |-> ap, rden |-> c = "RD", wren |-> c = "WR"]
\* the command (if any) the model puts on the bus in this cycle; the refresher's commands come from the environment
BmEvent == IF accept /\ activateIssue THEN <<Ev("ACT", RowOf(bufAddr), FALSE)>>
           ELSE IF accept /\ prechargeIssue THEN <<Ev("PRE", 0, FALSE)>>
           ELSE IF accept /\ isRead THEN <<Ev("RD", ColOf(bufAddr) * P2(Align), autoPre)>>
           ELSE IF accept /\ isWrite THEN <<Ev("WR", ColOf(bufAddr) * P2(Align), autoPre)>>
           ELSE <<>>
RefEvent == IF rph = 2 THEN <<Ev("PREA", 0, TRUE)>>
            ELSE IF rph = 2 + tRP THEN <<Ev("REF", 0, FALSE)>>
            ELSE <<>>
Events == BmEvent \o RefEvent

\* belief of the controller vs. the device: a RD/WR must hit the row the request addressed
RowClause == IF accept /\ (isRead \/ isWrite) /\ dev.open[0] # RowOf(buf.addr)
             THEN {<<"open row is not the row the request addressed", dev.open[0], RowOf(buf.addr)>>} ELSE {}

EnvNext == /\ in' \in Inputs
           /\ (in.valid /\ ~reqReady) => (in'.valid /\ in'.we = in.we /\ in'.addr = in.addr)   \* master holds its request
           /\ rph' = CASE rph = 0 -> IF in'.refreq THEN 1 ELSE 0
                       [] rph = 1 -> IF refGnt /\ in.refreq THEN 2 ELSE 1                      \* PREA one cycle after the grant
                       [] rph >= 2 /\ rph < 2 + tRP + tRFC -> rph + 1
                       [] OTHER -> 0
           /\ in'.refreq = (rph' # 0)                                                            \* held until the sequence is over

MInit == Init /\ dev = Dev!InitDev(DCfg) /\ now = 0 /\ bad = {} /\ rph = (IF in.refreq THEN 1 ELSE 0)
MNext == /\ Tick /\ EnvNext
         /\ now' = now + 1
         /\ LET evs == Events
                d1 == IF Len(evs) >= 1 THEN Dev!Apply(DCfg, Rq, dev, evs[1]) ELSE dev
                b1 == IF Len(evs) >= 1 THEN Dev!Check(DCfg, Rq, dev, evs[1]) ELSE {}
                d2 == IF Len(evs) >= 2 THEN Dev!Apply(DCfg, Rq, d1, evs[2]) ELSE d1
                b2 == IF Len(evs) >= 2 THEN Dev!Check(DCfg, Rq, d1, evs[2]) ELSE {}
            IN /\ dev' = d2
               /\ bad' = bad \cup {<<x[1], x[2]>> : x \in (b1 \cup b2) \ {y \in b2 : y[1] = "two commands on one phase"}} \cup {<<x[1], "row">> : x \in RowClause}
MSpec == MInit /\ [][MNext]_mvars

\* ages beyond the largest requirement are indistinguishable for every clause
Sat == 1 + Dev!MaxI(Dev!MaxI(tRC, tRFC), Dev!MaxI(tRP + tRAS, WL + BLCK + tWRdev + tRP))
Age(t) == IF now - t > Sat THEN Sat ELSE now - t
View == <<regs, in, rph, bad,
          dev.open, Age(dev.tAct[0]), Age(dev.tPre[0]), Age(dev.tWrE[0]), Age(dev.tRef[0])>>    \* tCCD/tWTR are not required here (multiplexer's job)

Legal == bad = {}
\* ---- refinement: every step of the design is a step of the abstract bank machine used in the composition MC_MuxRef
Abs == INSTANCE A_BankMachine
absB == IF fsm \in {"REGULAR", "TRCD"} THEN "REG" ELSE IF fsm = "PRECHARGE" THEN "PRE" ELSE IF fsm = "REFRESH" THEN "REF" ELSE "ACT"
absK == IF inRegularIssue THEN (IF buf.we THEN "WR" ELSE "RD") ELSE IF prechargeIssue THEN "PRE" ELSE IF activateIssue THEN "ACT" ELSE "NONE"
absO == fsm \in {"REGULAR", "TRCD"} /\ rowOpened
RefinesAbstractBm == [][Abs!Step(absB, absK, absO, refGnt, accept, in.refreq, absB', absK', absO', refGnt', in'.refreq, TRUE)]_mvars
\* vacuity guards (negated cover goals are checked in separate configs)
CoverAutoPrecharge == ~(fsm = "AUTOPRECHARGE")
CoverRefreshWhileOpen == ~(fsm = "REFRESH" /\ ~trasR)
====
