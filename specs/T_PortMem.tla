---- MODULE T_PortMem ----
(* Trace validation of native-port executions against R_PortMem (user side of a bridge with the ideal memory behind,
   or the ideal memory's own log).  cfg (line 1): [nports, uniq].  A "NEW" event [c |-> "NEW", nports, uniq] resets the
   monitor so that many independent executions can be batched in one file.  RDROP (read data not accepted by the
   port's master) is reported as a clause: the pulse-semantics memory loses that word. *)
EXTENDS TraceLib, R_PortMem
Cfg0 == Trace[1]
VARIABLES l, cfg, mem, bad
vars == <<l, cfg, mem, bad>>
TInit == l = 2 /\ cfg = Cfg0 /\ mem = InitMem(Cfg0) /\ bad = {}
TNext == /\ l <= NLines
         /\ l' = l + 1
         /\ LET e == Trace[l] IN
            IF e.c = "NEW" THEN cfg' = e /\ mem' = InitMem(e) /\ bad' = bad
            ELSE LET r == MemStep(cfg, mem, e) IN
                 /\ cfg' = cfg /\ mem' = r.s
                 /\ bad' = bad \cup {<<l>> \o x : x \in r.bad}
                           \cup (IF e.c = "RDROP" THEN {<<l, "read data returned while the master was not ready (word lost)", e.p>>} ELSE {})
TSpec == TInit /\ [][TNext]_vars
AtEnd == (l = NLines + 1) => WriteVerdict(l - 1, bad, [lines |-> NLines])
====
