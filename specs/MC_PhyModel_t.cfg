SPECIFICATION Spec
CHECK_DEADLOCK FALSE
CONSTANTS
 NBanks = 2
 NRows = 2
 NCols = 2
 WordCols = 1
 NBytes = 2
 ApBit = 4
 Rl = 2
 Wl = 1
 Mapping = "ROW_BANK_COL"
 InitLen = 3
 Trcd = 1
 Trp = 1
 Tras = 2
 Trc = 3
 Trrd = 1
 Tccd = 1
 Twr = 3
 Twtr = 2
 Trtw = 1
 Trtp = 1
 Rows = {0, 1}
 Cols = {0}
 NPh = 3
 MaxT = 6
 Salt = 0
 Bug = "none"
 MaskCodes = {0, 1}
INVARIANT EnvOk
INVARIANT ReadsAgree
INVARIANT MemAgree
