---- MODULE R_Conv ----
(* Requirement C07: a width-converted native port behaves like ONE memory at the user width.
   Written from the property statement: the user-side trace (commands, write beats, read beats, all at the user width,
   addresses in user words) must be explainable by R_PortMem (k-th write beat belongs to the k-th write command, k-th
   read beat to the k-th read command, each read returns the most recently written bytes, each write updates exactly
   its enabled bytes), AND the memory behind the converter, looked at through the byte-addressed view
   (user word a = bytes a*ub .. a*ub+ub-1 of the same byte space), must end up as the fold of the user writes.

   The master assumed by the property offers the data of a write NO LATER than the command, so a write beat may be
   taken before its command is accepted: such beats wait in `early` and bind, in order, to the next write commands.

   Events on top of R_PortMem's CMD / WDATA / RDATA / END:
     GEOM  [uaw, ub, maw, mb]   user/memory address width and bytes per word: the two ports must span the same byte space
     INIT  [a, d]               contents of user word a before the run (read from the ideal memory through the view)
     FINAL [a, d]               contents of user word a after the run  (idem; an independent path, not the user port)
     MWDROP / MRDROP            the memory side strobed write data / returned read data while the converter had none
                                offered / was not ready: that beat is lost (pulse semantics of the real crossbar)
     STUCK [what]               a command (or write beat) was offered and never accepted although the memory kept answering *)
EXTENDS R_PortMem

InitConv(cfg) == [mem |-> InitMem(cfg), early |-> [p \in PPorts(cfg) |-> <<>>]]

Pow2(n) == LET RECURSIVE P(_)
               P(k) == IF k = 0 THEN 1 ELSE 2 * P(k - 1)
           IN P(n)

FinalCheck(m, e) ==
    LET h == PGet(m.hist, e.a, <<>>)
        unbound == {i \in 1..Len(h) : h[i] \notin DOMAIN m.wval}
        nb == Len(e.d)
        ini == PGet(m.init, e.a, [j \in 1..nb |-> 0 - 1])
        w == [j \in 1..nb |-> IF unbound = {} THEN LastWriter(m.wval, h, Len(h), j) ELSE 0]
        exp == [j \in 1..nb |-> IF w[j] = 0 THEN ini[j] ELSE m.wval[w[j]].d[j]]
        stray == {j \in 1..nb : w[j] = 0 /\ exp[j] # 0 - 1 /\ exp[j] # e.d[j]}
        wrong == {j \in 1..nb : w[j] # 0 /\ exp[j] # e.d[j]}
    IN IF unbound # {} THEN {}          \* END reports the write whose data never came
       ELSE (IF stray # {} THEN {<<"memory bytes changed that no user write enabled", e.a, e.d, exp>>} ELSE {})
            \cup (IF wrong # {} THEN {<<"final memory contents differ from the last enabled user write", e.a, e.d, exp>>} ELSE {})

ConvStep(cfg, s, e) ==
  CASE e.c = "WDATA" /\ s.mem.wq[e.p] = <<>> ->
        [s |-> [s EXCEPT !.early[e.p] = Append(@, e)], bad |-> {}]
    [] e.c = "CMD" /\ e.we /\ s.early[e.p] # <<>> ->
        LET r1 == MemStep(cfg, s.mem, e)
            r2 == MemStep(cfg, r1.s, Head(s.early[e.p]))
        IN [s |-> [s EXCEPT !.mem = r2.s, !.early[e.p] = Tail(@)], bad |-> r1.bad \cup r2.bad]
    [] e.c = "INIT" ->
        [s |-> [s EXCEPT !.mem.init = PPut(@, e.a, e.d)], bad |-> {}]
    [] e.c = "FINAL" ->
        [s |-> s, bad |-> FinalCheck(s.mem, e)]
    [] e.c = "GEOM" ->
        [s |-> s, bad |-> IF e.ub * Pow2(e.uaw) # e.mb * Pow2(e.maw)
                          THEN {<<"user port and memory port do not span the same byte space", e.uaw, e.ub, e.maw, e.mb>>} ELSE {}]
    [] e.c = "MWDROP" -> [s |-> s, bad |-> {<<"memory strobed write data while the converter offered none (beat lost)">>}]
    [] e.c = "MRDROP" -> [s |-> s, bad |-> {<<"memory returned read data while the converter was not ready (beat lost)">>}]
    [] e.c = "STUCK"  -> [s |-> s, bad |-> {<<"offered but never accepted", e.what>>}]
    [] e.c = "END" ->
        LET r == MemStep(cfg, s.mem, e)
        IN [s |-> s, bad |-> r.bad \cup {<<"write data taken that no write command ever claimed", p>> : p \in {x \in PPorts(cfg) : s.early[x] # <<>>}}]
    [] OTHER ->
        LET r == MemStep(cfg, s.mem, e) IN [s |-> [s EXCEPT !.mem = r.s], bad |-> r.bad]
====
