---- MODULE T_Bist ----
(* Trace validation of BIST sessions recorded from the REAL generator / checker (C14) against R_Bist.
   Line 1 (cfg): [variant, dw, ...] (informative); every session starts with a NEW event carrying its settings. *)
EXTENDS TraceLib, R_Bist
Cfg == Trace[1]
VARIABLES l, st, bad, envbad
vars == <<l, st, bad, envbad>>
TInit == l = 2 /\ st = BInit /\ bad = {} /\ envbad = {}
TNext == /\ l <= NLines
         /\ l' = l + 1
         /\ LET r == BistStep(st, Trace[l]) IN
            /\ st' = r.s
            /\ bad' = bad \cup {<<l, "C14">> \o x : x \in r.bad}
            /\ envbad' = envbad \cup {<<l>> \o x : x \in r.envbad}
TSpec == TInit /\ [][TNext]_vars
AtEnd == (l = NLines + 1) => WriteVerdict(l - 1, bad, [envbad |-> envbad, stats |-> st.stats])
====
