SPECIFICATION Spec
VIEW View
CONSTANTS
  R = 2
  NW = 2
  MaxCmds = 3
  Lmin = 3
  Lmax = 4
  Fix = FALSE
  Orders = "asc"
  Bug = "none"
  Wes = {TRUE, FALSE}
  Masks = {0, 1}
  Flush = FALSE
  Stall = TRUE
INVARIANTS ReqOK FinalOK TypeOK
CHECK_DEADLOCK FALSE
