---- MODULE D_Fifo ----
(* Cycle-level models of the LiteX/Migen stream FIFO primitives used by the DMA engines and the DRAM FIFO:
     "sync"     migen.genlib.fifo.SyncFIFO (fwft): writable = level # depth, a word written in cycle t is readable in t+1
     "buffered" SyncFIFOBuffered: non-fwft SyncFIFO + output register (one more cycle of latency, one more word of room)
     "pipe"     stream.Buffer / PipeValid (what stream.SyncFIFO builds for depth 1): sink.ready = ~valid | source.ready
   A FIFO value is [q |-> storage, o |-> output register (buffered only; sequence of length <= 1)]. *)
EXTENDS Integers, Sequences
FifoInit == [q |-> <<>>, o |-> <<>>]
SrcValid(kind, f) == IF kind = "buffered" THEN f.o # <<>> ELSE f.q # <<>>
SrcData(kind, f) == IF kind = "buffered" THEN f.o[1] ELSE Head(f.q)
SinkReady(kind, depth, f, srcReady) == IF kind = "pipe" THEN f.q = <<>> \/ srcReady ELSE Len(f.q) < depth
FifoLevel(kind, f) == Len(f.q) + Len(f.o)
\* next value given this cycle's sink.valid (we) / payload (din) / source.ready (re)
FifoNext(kind, depth, f, we, din, re) ==
  CASE kind = "sync" ->
         LET push == we /\ Len(f.q) < depth
             pop == re /\ f.q # <<>>
             q1 == IF pop THEN Tail(f.q) ELSE f.q
         IN [q |-> IF push THEN Append(q1, din) ELSE q1, o |-> <<>>]
    [] kind = "pipe" ->
         IF f.q = <<>> \/ re THEN [q |-> IF we THEN <<din>> ELSE <<>>, o |-> <<>>] ELSE f
    [] kind = "buffered" ->
         LET popi == f.q # <<>> /\ (f.o = <<>> \/ re)
             push == we /\ Len(f.q) < depth
             q1 == IF popi THEN Tail(f.q) ELSE f.q
         IN [q |-> IF push THEN Append(q1, din) ELSE q1,
             o |-> IF popi THEN <<Head(f.q)>> ELSE IF re THEN <<>> ELSE f.o]
====
