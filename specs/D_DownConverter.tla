---- MODULE D_DownConverter ----
(* Design-level model of litedram/frontend/adapter.py LiteDRAMNativePortDownConverter (user port wider than the
   controller port, ratio R): one action per clock edge; registers = variables; combinational signals = LET
   definitions named after the code (FSM IDLE/CONVERT with cmd_count; wdata through a stream _DownConverter (mux),
   rdata through a stream _UpConverter (demux, strobe_all)).  Composed with the C07 user-side master, the abstract
   ideal memory (D_ConvEnv) and the requirement monitor R_Conv exactly as D_UpConverter is.
   A user word is R bytes (one per controller word); the data of the n-th command is <<n*R, n*R+1, ...>> (0 = initial). *)
EXTENDS Integers, Sequences, FiniteSets, TLC, D_ConvEnv, R_Conv
CONSTANTS R, NA,    \* ratio, number of user words
          MaxCmds, Lmin, Lmax,
          Bug,      \* "none" | "shortburst" | "muxstuck"
          Wes,      \* subset of BOOLEAN
          Masks,    \* subset of 0 .. 2^R-1 (bit i = byte enable of chunk i)
          Stall

MCfg == [nports |-> 1, uniq |-> FALSE]
Chunks == 0 .. R - 1
ZeroPend == [v |-> FALSE, we |-> FALSE, a |-> 0, m |-> 0]
Bit(x, i) == (x \div Pow2(i)) % 2

VARIABLES fsm, count, caddr, cwe,        \* command FSM
          wmux,                           \* wdata stream down-converter
          rdemux, rstrobe, rparts,        \* rdata stream up-converter
          ms, pend, mready, uwq, ncmd,    \* environment
          mon, bad, quiet, io
dut == <<fsm, count, caddr, cwe, wmux, rdemux, rstrobe, rparts>>
envv == <<ms, pend, mready, uwq, ncmd>>
vars == <<dut, envv, mon, bad, quiet, io>>
View == <<dut, envv, mon, bad, quiet>>
QMax == 2 * R + 8

NoIo == [acc |-> FALSE, take |-> FALSE, rd |-> FALSE, macc |-> [v |-> FALSE, we |-> FALSE, a |-> 0, lat |-> 0],
         wdrop |-> FALSE]

Init ==
  /\ fsm = "IDLE" /\ count = 0 /\ caddr = 0 /\ cwe = FALSE /\ wmux = 0
  /\ rdemux = 0 /\ rstrobe = FALSE /\ rparts = [k \in Chunks |-> 0]
  /\ ms = InitMS(NA * R, 1)
  /\ pend = ZeroPend /\ mready = TRUE /\ uwq = <<>> /\ ncmd = 0
  /\ mon = [InitConv(MCfg) EXCEPT !.mem.init = [a \in 0 .. NA - 1 |-> [j \in 1 .. R |-> 0]]]
  /\ bad = {} /\ quiet = 0 /\ io = NoIo

NewCmds == {[v |-> TRUE, we |-> w, a |-> a, m |-> m] : w \in Wes, a \in 0 .. NA - 1, m \in Masks}
Feed(s, evs) ==
  LET RECURSIVE F(_, _, _)
      F(st, b, i) == IF i > Len(evs) THEN [s |-> st, bad |-> b]
                     ELSE LET r == ConvStep(MCfg, st, evs[i]) IN F(r.s, b \cup r.bad, i + 1)
  IN F(s, {}, 1)

Tick ==
  LET from_ready == fsm = "IDLE"
      accepted   == pend.v /\ from_ready
      to_valid   == fsm = "CONVERT"
      to_addr    == caddr * R + count
      macc_v     == to_valid /\ mready
      burst_end  == count = (IF Bug = "shortburst" /\ R > 1 THEN R - 2 ELSE R - 1)
      \* wdata: port_from.wdata -> stream down-converter -> port_to.wdata (combinational)
      uvalid     == uwq # <<>>
      wxfer      == uvalid /\ ms.pw.v
      take       == wxfer /\ wmux = R - 1
      wpart      == IF uvalid THEN [d |-> Head(uwq).d[wmux + 1], m |-> Head(uwq).m[wmux + 1]] ELSE [d |-> 0, m |-> 0]
      wdrop      == ms.pw.v /\ ~uvalid
      \* rdata: port_to.rdata -> stream up-converter -> port_from.rdata (user always ready)
      rload      == ms.pr.v
      user_rdata == rstrobe
      evs == (IF accepted THEN <<[c |-> "CMD", p |-> 0, we |-> pend.we, a |-> pend.a]>> ELSE <<>>)
             \o (IF take THEN <<[c |-> "WDATA", p |-> 0, d |-> Head(uwq).d, m |-> Head(uwq).m]>> ELSE <<>>)
             \o (IF user_rdata THEN <<[c |-> "RDATA", p |-> 0, d |-> [j \in 1 .. R |-> rparts[j - 1]]]>> ELSE <<>>)
             \o (IF wdrop THEN <<[c |-> "MWDROP"]>> ELSE <<>>)
      obs == Feed(mon, evs)
      active == ncmd < MaxCmds \/ accepted \/ take \/ user_rdata \/ to_valid \/ ms.mq # <<>> \/ ms.pw.v \/ ms.pr.v
  IN
  /\ quiet' = IF active THEN 0 ELSE IF quiet < QMax THEN quiet + 1 ELSE QMax
  /\ mon' = obs.s
  /\ bad' = bad \cup obs.bad
  /\ fsm' = CASE fsm = "IDLE" -> IF accepted THEN "CONVERT" ELSE "IDLE"
              [] fsm = "CONVERT" -> IF mready /\ burst_end THEN "IDLE" ELSE "CONVERT"
  /\ count' = IF fsm = "IDLE" /\ accepted THEN 0
              ELSE IF fsm = "CONVERT" /\ mready THEN (count + 1) % R ELSE count
  /\ caddr' = IF fsm = "IDLE" /\ accepted THEN pend.a ELSE caddr
  /\ cwe'   = IF fsm = "IDLE" /\ accepted THEN pend.we ELSE cwe
  /\ wmux'  = IF wxfer /\ Bug # "muxstuck" THEN (wmux + 1) % R ELSE wmux
  /\ rdemux' = IF rload THEN (rdemux + 1) % R ELSE rdemux
  /\ rstrobe' = (rload /\ rdemux = R - 1)
  /\ rparts' = IF rload THEN [rparts EXCEPT ![rdemux] = ms.pr.w[0]] ELSE rparts
  /\ \E lat \in Lmin .. Lmax :
       LET acc == [v |-> macc_v, we |-> cwe, a |-> to_addr, lat |-> lat] IN
       /\ (~macc_v => lat = Lmin)
       /\ ms' = MemEdge(ms, 1, acc, uvalid, [k \in {0} |-> wpart])
       /\ io' = [acc |-> accepted, take |-> take, rd |-> user_rdata,
                 macc |-> [acc EXCEPT !.lat = IF macc_v THEN lat ELSE 0], wdrop |-> wdrop]
  /\ mready' \in (IF Stall THEN BOOLEAN ELSE {TRUE})
  /\ LET free == ~pend.v \/ accepted
         hold == [pend EXCEPT !.v = FALSE]
     IN \E c \in (IF ~free THEN {pend} ELSE {hold} \cup (IF ncmd < MaxCmds THEN NewCmds ELSE {})) :
          LET new == free /\ c.v IN
          /\ pend' = c
          /\ ncmd' = IF new THEN ncmd + 1 ELSE ncmd
          /\ uwq' = (IF take THEN Tail(uwq) ELSE uwq)
                    \o (IF new /\ c.we THEN <<[d |-> [j \in 1 .. R |-> (ncmd + 1) * R + j - 1], m |-> [j \in 1 .. R |-> Bit(c.m, j - 1)]]>> ELSE <<>>)

Spec == Init /\ [][Tick]_vars

Settled == quiet = QMax /\ ncmd = MaxCmds
FinalBad == UNION {FinalCheck(mon.mem, [a |-> a, d |-> [j \in 1 .. R |-> ms.mem[a * R + j - 1][0]]]) : a \in 0 .. NA - 1}
            \cup ConvStep(MCfg, mon, [c |-> "END"]).bad
ReqOK   == bad = {}
FinalOK == Settled => (~pend.v /\ uwq = <<>> /\ FinalBad = {})
TypeOK  == Len(ms.mq) <= 2 * R + 2 /\ count \in Chunks /\ wmux \in Chunks /\ rdemux \in Chunks
CoverSettled == ~Settled
====
