import sys, os
sys.path.insert(0, "/verif")
from harness import muxlock
os.makedirs("/verif/.work/trymuxr", exist_ok=True)
for j, pr in enumerate([dict(nb=2, nph=2, rdphase=0, wrphase=1, read_latency=3, cwl=2, tWTR=1, tFAW=None, tCCD=1, tRRD=2, read_time=3, write_time=2, pref=0.03),
           dict(nb=4, nph=1, rdphase=0, wrphase=0, read_latency=4, cwl=2, tWTR=2, tFAW=6, tCCD=2, tRRD=2, read_time=8, write_time=4, pref=0.02),
           dict(nb=8, nph=4, rdphase=2, wrphase=3, read_latency=5, cwl=5, tWTR=2, tFAW=5, tCCD=1, tRRD=None, read_time=32, write_time=16, pref=0.02)]):
    r = muxlock.run_mux(dict(seed=j, ncyc=3000, params=pr), "/verif/.work/trymuxr", with_refresh=True); print(j, r["cycles"], r["commands"], r["mismatches"][:6])
