import sys, os
sys.path.insert(0, "/verif")
from harness import xbarlock
os.makedirs("/verif/.work/tryxb", exist_ok=True)
for j, pr in enumerate([dict(M=2, B=2, depth=2), dict(M=3, B=4, depth=2, poffer=0.8, pserve=0.4), dict(M=4, B=2, depth=3, poffer=0.9, pserve=0.7, wl=2)]):
    r = xbarlock.run_xbar(dict(seed=j, ncyc=1500, params=pr), "/verif/.work/tryxb"); print(j, r["cycles"], r["accepted"], r["mismatches"][:6], r["info"])
