import sys, os
sys.path.insert(0, "/verif")
from harness import reflock
os.makedirs("/verif/.work/tryref", exist_ok=True)
for N, zq in [(1, False), (2, True), (4, True)]:
    sc = dict(seed=N, ncyc=6000, params=dict(tREFI=100 + 7 * N, N=N, tRP=3, tRFC=11, tZQCS=6, zq=zq, zqperiod=777, dmax=20))
    r = reflock.run_ref(sc, "/verif/.work/tryref"); print(N, zq, r["cycles"], r["refs"], r["zqs"], r["mismatches"][:6])
