#!/usr/bin/env python3
"""Runs the repository's test-suite on /repo (guard off) and checks that every test of BASELINE.json's stable_pass passes."""
import json, os, subprocess, sys, xml.etree.ElementTree as ET
stable = set(json.load(open("/root/.vp/BASELINE.json"))["stable_pass"])
jx = "/tmp/repo_junit.xml"
env = dict(os.environ); env.pop("LITEDRAM_VERIF", None)
subprocess.run("cd /repo && /venv/bin/python -m pytest -ra -q -p no:cacheprovider --timeout=900 --continue-on-collection-errors -n %s --junitxml=%s 2>&1 | tail -3" % (sys.argv[1] if len(sys.argv) > 1 else "8", jx), shell=True, env=env)
passed = set()
for tc in ET.parse(jx).getroot().iter("testcase"):
    if not any(ch.tag in ("failure", "error", "skipped") for ch in tc):
        passed.add("%s::%s" % (tc.get("classname"), tc.get("name")))
missing = sorted(stable - passed)
print("stable baseline: %d/%d passed; missing: %s" % (len(stable) - len(missing), len(stable), missing[:10]))
subprocess.run("rm -f /repo/*.vcd " + jx, shell=True)
sys.exit(1 if missing else 0)
