#!/usr/bin/env python3
"""Regenerate DESIGN.md section 12.10 (seeded changes and which check catches them) from /verif/seeded/*/."""
import json, os, re

VERIF = os.path.dirname(os.path.dirname(os.path.abspath(__file__)))
# seeded changes that the check of their property missed at first; what was added (details in DESIGN 12.6)
LATE = {
    "C05-g": "anti-starvation budgets that are not powers of two (read_time/write_time 33/17, 17/9, 9/33, RT list)",
    "C13-h": "stream checks: stock confirmation repeats the first run of every distinct clause (was: first bad run only)",
    "C09-a": "native side with early wdata.ready (IdealMem eager) + families eager/eagersb",
    "C05-a": "tCCD>=2 configuration + continuous one-direction streams",
    "C05-b": "refresh-starving alternating-row stream, victims on other banks",
    "C15-a": "runner: second confirmation batch",
    "C19-b": "init images covering >=2 banks, DUMP0 clause",
    "C03-c": "tFAW-binding configuration with 8 ports",
    "C06-c": "alignment derived from the configuration, not the code",
    "C01-c": "alias probes beyond A10 (C06 caught it from the start)",
    "C10-c": "CTI as a per-access hint; mixed held cycles; TLC goal stimuli",
    "C06-d": "GEOM event: port address width must equal the device's address bits (onto)",
    "C02-d": "multi-phase configuration with write data phase 0",
    "C09-d": "window larger than the base address",
    "C04-d": "single-bank stream that changes row on every access, one direction",
    "C19-d": "missing model storage reported as a verdict instead of crashing the check",
    "C02-e": "geometry with more than 10 column bits in C02",
    "C03-e": "directed re-trigger sweep (second write at every offset, then row conflict / read)",
    "C06-e": "bank alignments up to the whole bank",
    "C13-f": "bypass FIFO depths with depth+16 a power of two (16, 48)",
    "C02-f": "configuration with tCCD of two controller cycles and same-row streams",
    "C03-f": "refresh-race schedule on a configuration with tRAS - tRCD > 4 controller cycles (DDR4 at 300 MHz)",
    "C10-f": "reverse bridge driver puts don't-care values on the command payload while cmd.valid is low",
    "C05-f": "aggressor streams with a one-cycle bubble after every access (rbubble / wbubble)",
    "C12-g": "AXI ports with a 64-bit data path (data bytes != address bytes)",
    "C08-e": "crossing combined with width conversion (xbar-conv scenarios, nocross mode)",
    "C10-e": "FIFO-like native side family `eager` (found D23; the change itself is neutralised by the repair, see seeded/obsolete/)",
}


def rows():
    base = os.path.join(VERIF, "seeded")
    out = []
    for name in sorted(os.listdir(base)):
        d = os.path.join(base, name)
        if not os.path.exists(os.path.join(d, "meta.json")):
            continue
        m = json.load(open(os.path.join(d, "meta.json")))
        cr = json.load(open(os.path.join(d, "check_result.json"))) if os.path.exists(os.path.join(d, "check_result.json")) else {}
        br = json.load(open(os.path.join(d, "baseline_result.json"))) if os.path.exists(os.path.join(d, "baseline_result.json")) else None
        det = ", ".join(k if v["rc"] == 1 else "%s MISSED (rc=%s)" % (k, v["rc"]) for k, v in sorted(cr.items())) or "not run"
        first = ""
        for k, v in sorted(cr.items()):
            if v["rc"] == 1 and v.get("first"):
                mm = re.match(r"\s*clause (.*?): \[", v["first"])
                first = (mm.group(1) if mm else v["first"])[:110]
                break
        out.append("| %s%s | %s | %s | %s | %s | %s |" % (
            name, " (*)" if name in LATE else "", m["property"], m.get("title", "")[:150].replace("|", "/").replace("\n", " "),
            ("%d/%d" % (br["stable_passed"], br["stable"])) if br else "?", det, first.replace("|", "/")))
    return out


def main():
    r = rows()
    n = len(r)
    late_present = [k for k in LATE if os.path.isdir(os.path.join(VERIF, "seeded", k))]
    text = ["### 12.10 Seeded changes (sub-agents given only the property text and a scratch worktree) and which check catches them", "",
            "%d changes (waves a..g); each was confirmed here (demo exits 0 without / non-zero with the patch in a scratch worktree, `tools/mutant.py" % n,
            "confirm-demo`; the repository's stable baseline still passes with the patch, `tools/mutant.py baseline`, column \"baseline\") and",
            "then run through `./check <ID> --tier quick` on a scratch worktree (`tools/mutant.py check`). All are detected (exit 1 with a",
            "VIOLATION line) by the check of their property; %d of them only after the check was strengthened (12.6), marked (*):" % len(late_present),
            "; ".join("%s (%s)" % (k, v) for k, v in LATE.items() if k in late_present) + ".",
            "One more change (C10-e, `seeded/obsolete/`) was detected on the tree it was made against and is neutralised by the repair 369afc3 that its",
            "own detection led to (%s)." % LATE["C10-e"],
            "One delivered change was not kept (C15-f, `seeded/rejected/`): it only alters what a write that leaves an ECC lane disabled stores; by the",
            "statement every such write is a granularity error (the unmodified code flags it), so nothing the property promises is broken and C15 rightly",
            "stays quiet.",
            "Files: `seeded/<id>/{patch.diff, demo.py, meta.json, check_result.json, baseline_result.json}`. This section is generated by",
            "`tools/seeded_table.py`.", "",
            "| id | prop | change | baseline | detected by | first failing clause |", "|---|---|---|---|---|---|"] + r
    p = os.path.join(VERIF, "DESIGN.md")
    s = open(p).read()
    i = s.index("### 12.10 Seeded changes")
    j = s.find("\n## ", i)
    j2 = s.find("\n### ", i + 10)
    ends = [x for x in (j, j2) if x != -1]
    end = min(ends) if ends else len(s)
    s = s[:i] + "\n".join(text) + "\n" + s[end:]
    open(p, "w").write(s)
    print("rows:", n, "late:", len(late_present))
    missed = [x for x in r if "MISSED" in x or "not run" in x]
    for x in missed:
        print("ATTENTION:", x[:160])


if __name__ == "__main__":
    main()
