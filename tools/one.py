"""Run one scenario of a property module in-process (debug helper): tools/one.py C04 DDR3-allread [tier]"""
import sys, os, json
sys.path.insert(0, "/verif")
from harness import env
env.setup()
import importlib
pid, name = sys.argv[1], sys.argv[2]
mod = importlib.import_module("harness.props." + pid.lower())
tier = sys.argv[3] if len(sys.argv) > 3 else "quick"
sc = [s for s in mod.scenarios(tier, int(os.environ.get("VERIF_SEED", "0"))) if s["name"].startswith(name)][0]
w = "/verif/.work/one_%s_%d" % (pid, os.getpid()); os.makedirs(w, exist_ok=True)
r = mod.execute(sc, w)
print(sc["name"], "bad:", r["bad"][:8], len(r["bad"]))
print(json.dumps(r["sample"].get("info"))[:600], r["stats"])
import shutil; shutil.rmtree(w, ignore_errors=True)
