#!/bin/sh
# tools/bg.sh <logname> <command...> : run a command detached, output to /verif/.work/<logname>.log
log=/verif/.work/$1.log; shift
nohup "$@" > "$log" 2>&1 &
echo "started $! -> $log"
