import sys, os
sys.path.insert(0, "/verif")
from harness import b3, bmlock
w = "/verif/.work/tryb3"; os.makedirs(w, exist_ok=True)
behs = b3.behaviours("MC_BankMachine", "MC_BankMachine_quick.cfg", w, num=5, depth=60, seed=7)
print(len(behs), [len(b) for b in behs], behs[0][:3])
params = dict(depth=2, ap=True, tRP=2, tRCD=2, tWR=1, tCCD=1, tRC=4, tRAS=2, cwl=1, nphases=1, colbits=2, align=2, nrows=2)
for i, b in enumerate(behs):
    r = bmlock.run_bm(dict(seed=0, params=params, stimulus=b), w); print(i, r["cycles"], r["issued"], r["mismatches"][:4], r["consts"] if i == 0 else "")
