#!/usr/bin/env python3
"""Seeded-change workflow.

  tools/mutant.py confirm <seeded-dir>        # demo passes without the patch, fails with it; repo tests still pass with it
  tools/mutant.py check <seeded-dir> [PID..]  # run ./check PID --tier quick against a scratch worktree with the patch
  tools/mutant.py all [PID]                   # `check` for every /verif/seeded/* (only those of PID if given); prints a table

A seeded dir holds patch.diff, the demonstration (demo.py or test file) and meta.json:
  {"property": "C03", "needs": "...", "demo_cmd": "/venv/bin/python demo.py", "ran": [...]}
demo_cmd is run with cwd = the scratch worktree (the demo file is copied there) and PYTHONPATH = worktree.
Scratch worktrees live under /tmp/mw and are always removed afterwards.
"""
import json, os, shutil, subprocess, sys, time

VERIF = os.path.dirname(os.path.dirname(os.path.abspath(__file__)))
MW = "/tmp/mw"


def sh(cmd, cwd=None, env=None, timeout=3600):
    e = dict(os.environ)
    if env:
        e.update(env)
    p = subprocess.run(cmd, shell=True, cwd=cwd, env=e, stdout=subprocess.PIPE, stderr=subprocess.STDOUT, text=True, timeout=timeout)
    return p.returncode, p.stdout


def worktree(name):
    os.makedirs(MW, exist_ok=True)
    wt = os.path.join(MW, name)
    if os.path.exists(wt):
        sh("git -C /repo worktree remove --force %s" % wt)
        shutil.rmtree(wt, ignore_errors=True)
    rc, out = sh("git -C /repo worktree add --detach %s HEAD" % wt)
    if rc:
        raise RuntimeError(out)
    return wt


def drop(wt):
    sh("git -C /repo worktree remove --force %s" % wt)
    shutil.rmtree(wt, ignore_errors=True)
    sh("git -C /repo worktree prune")


def load(d):
    with open(os.path.join(d, "meta.json")) as f:
        return json.load(f)


def copy_demo(d, wt):
    for fn in os.listdir(d):
        if fn not in ("patch.diff", "meta.json"):
            shutil.copy(os.path.join(d, fn), os.path.join(wt, fn))


def confirm(d, with_pytest=True):
    meta = load(d)
    name = os.path.basename(os.path.normpath(d))
    wt = worktree("c_" + name)
    res = {}
    try:
        copy_demo(d, wt)
        env = {"PYTHONPATH": wt, "LITEDRAM_VERIF": ""}
        rc0, out0 = sh(meta["demo_cmd"], cwd=wt, env=env, timeout=1800)
        res["demo_without_patch_rc"] = rc0
        rc, out = sh("git apply %s" % os.path.abspath(os.path.join(d, "patch.diff")), cwd=wt)
        if rc:
            raise RuntimeError("patch does not apply: " + out)
        rc1, out1 = sh(meta["demo_cmd"], cwd=wt, env=env, timeout=1800)
        res["demo_with_patch_rc"] = rc1
        rc2, out2 = (0, "skipped") if not with_pytest else sh("/venv/bin/python -m pytest -q -p no:cacheprovider --timeout=900 --continue-on-collection-errors -x -n 8 "
                       "--deselect test/test_examples.py --ignore=test/test_lpddr4.py --ignore=test/test_lpddr5.py 2>&1 | tail -15",
                       cwd=wt, env={"LITEDRAM_VERIF": "", "PYTHONPATH": wt}, timeout=3600)
        res["pytest_tail"] = out2[-1500:]
    finally:
        drop(wt)
    ok = res.get("demo_without_patch_rc") == 0 and res.get("demo_with_patch_rc") not in (0, None)
    print(json.dumps(res, indent=1))
    print("CONFIRMED" if ok else "NOT CONFIRMED", name, "(check the pytest tail: the stable baseline must still pass)")
    if ok:
        meta["demo_confirmed"] = True
        json.dump(meta, open(os.path.join(d, "meta.json"), "w"), indent=1)
    return ok


def baseline(d):
    """The repository's stable baseline (BASELINE.json stable_pass) must still pass with the patch applied."""
    import xml.etree.ElementTree as ET
    name = os.path.basename(os.path.normpath(d))
    stable = set(json.load(open("/root/.vp/BASELINE.json"))["stable_pass"])
    wt = worktree("b_" + name)
    try:
        rc, out = sh("git apply %s" % os.path.abspath(os.path.join(d, "patch.diff")), cwd=wt)
        if rc:
            raise RuntimeError("patch does not apply: " + out)
        jx = os.path.join(wt, "junit.xml")
        sh("/venv/bin/python -m pytest -q -p no:cacheprovider --timeout=1800 --continue-on-collection-errors -n 6 --junitxml=%s 2>&1 | tail -3" % jx,
           cwd=wt, env={"LITEDRAM_VERIF": "", "PYTHONPATH": wt}, timeout=7200)
        passed = set()
        for tc in ET.parse(jx).getroot().iter("testcase"):
            if not any(ch.tag in ("failure", "error", "skipped") for ch in tc):
                passed.add("%s::%s" % (tc.get("classname"), tc.get("name")))
        missing = sorted(stable - passed)
    finally:
        drop(wt)
    res = dict(seeded=name, stable=len(stable), stable_passed=len(stable) - len(missing), missing=missing[:10])
    print(json.dumps(res))
    with open(os.path.join(d, "baseline_result.json"), "w") as f:
        json.dump(res, f, indent=1)
    return not missing


def check(d, pids=None, tier="quick"):
    meta = load(d)
    name = os.path.basename(os.path.normpath(d))
    pids = pids or [meta["property"]]
    wt = worktree("k_" + name)
    rows = []
    try:
        rc, out = sh("git apply %s" % os.path.abspath(os.path.join(d, "patch.diff")), cwd=wt)
        if rc:
            raise RuntimeError("patch does not apply: " + out)
        for pid in pids:
            t0 = time.time()
            rc, out = sh("./check %s --tier %s" % (pid, tier), cwd=VERIF,
                         env={"VERIF_REPO": wt, "VERIF_WORK": os.path.join(VERIF, ".work", "mut_" + name)}, timeout=7200)
            viol = [l for l in out.splitlines() if l.startswith("VIOLATION")]
            rows.append(dict(seeded=name, check=pid, rc=rc, violations=len(viol), wall=round(time.time() - t0),
                             first=(out.splitlines()[out.splitlines().index(viol[0]) + 1][:160] if viol and out.splitlines().index(viol[0]) + 1 < len(out.splitlines()) else ""),
                             tail=out[-400:] if rc not in (0, 1) else ""))
    finally:
        drop(wt)
        shutil.rmtree(os.path.join(VERIF, ".work", "mut_" + name), ignore_errors=True)
    for r in rows:
        print(json.dumps(r))
    try:
        rp = os.path.join(d, "check_result.json")
        old = json.load(open(rp)) if os.path.exists(rp) else {}
        for r in rows:
            old[r["check"]] = dict(rc=r["rc"], violations=r["violations"], first=r["first"].strip(), wall=r["wall"], tier=tier)
        json.dump(old, open(rp, "w"), indent=1)
    except Exception as ex:
        print("could not store result:", ex)
    return rows


def main():
    cmd = sys.argv[1]
    if cmd == "confirm":
        sys.exit(0 if confirm(sys.argv[2]) else 1)
    if cmd == "confirm-demo":
        sys.exit(0 if confirm(sys.argv[2], with_pytest=False) else 1)
    if cmd == "baseline":
        sys.exit(0 if baseline(sys.argv[2]) else 1)
    if cmd == "check":
        check(sys.argv[2], sys.argv[3:] or None)
    if cmd == "all":
        only = sys.argv[2] if len(sys.argv) > 2 else None
        base = os.path.join(VERIF, "seeded")
        allrows = []
        for name in sorted(os.listdir(base)):
            d = os.path.join(base, name)
            if not os.path.exists(os.path.join(d, "meta.json")):
                continue
            if only and load(d)["property"] != only:
                continue
            allrows += check(d)
        print("\nseeded change | check | exit | detected")
        for r in allrows:
            print("%s | %s | %s | %s" % (r["seeded"], r["check"], r["rc"], "yes" if r["rc"] == 1 else "NO"))


def table():
    base = os.path.join(VERIF, "seeded")
    print("| seeded change | property | what it needs to manifest | demo confirmed | stable baseline | detected by (exit 1) |")
    print("|---|---|---|---|---|---|")
    for name in sorted(os.listdir(base)):
        d = os.path.join(base, name)
        if not os.path.exists(os.path.join(d, "meta.json")):
            continue
        m = load(d)
        cr = json.load(open(os.path.join(d, "check_result.json"))) if os.path.exists(os.path.join(d, "check_result.json")) else {}
        br = json.load(open(os.path.join(d, "baseline_result.json"))) if os.path.exists(os.path.join(d, "baseline_result.json")) else None
        det = ", ".join("%s%s" % (k, "" if v["rc"] == 1 else " (MISSED rc=%s)" % v["rc"]) for k, v in sorted(cr.items())) or "not run"
        first = "; ".join(v["first"][:90] for k, v in sorted(cr.items()) if v["rc"] == 1)[:140]
        print("| %s: %s | %s | %s | %s | %s | %s %s |" % (name, m.get("title", "")[:160].replace("|", "/"), m["property"], m.get("needs", "")[:200].replace("|", "/").replace("\n", " "),
              "yes" if m.get("demo_confirmed") else "?", ("%d/%d" % (br["stable_passed"], br["stable"])) if br else "?", det, ("— " + first.replace("|", "/")) if first else ""))


if __name__ == "__main__":
    if len(sys.argv) > 1 and sys.argv[1] == "table":
        table()
        sys.exit(0)
    main()
