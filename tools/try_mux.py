import sys, os
sys.path.insert(0, "/verif")
from harness import muxlock
os.makedirs("/verif/.work/trymux", exist_ok=True)
for j, pr in enumerate([dict(nb=2, nph=2, rdphase=0, wrphase=1, read_latency=3, cwl=2, tWTR=1, tFAW=None, tCCD=1, tRRD=2, read_time=3, write_time=2),
           dict(nb=4, nph=1, rdphase=0, wrphase=0, read_latency=4, cwl=2, tWTR=2, tFAW=6, tCCD=2, tRRD=2, read_time=8, write_time=4),
           dict(nb=8, nph=4, rdphase=2, wrphase=3, read_latency=5, cwl=5, tWTR=2, tFAW=5, tCCD=1, tRRD=None, read_time=32, write_time=16)]):
    r = muxlock.run_mux(dict(seed=j, ncyc=2500, params=pr), "/verif/.work/trymux"); print(j, r["cycles"], r["commands"], r["mismatches"][:6])
